"""Bounded stand-ins, part 2 (validation, positions, versions, expressions, robustness, purity, comments, includes,
layout, dictionaries, vocabulary, front ends)."""
from __future__ import annotations
import copy
import io
import itertools
import json
import os
import pickle
import random
import re
import shutil
import subprocess
import sys
import tempfile
import threading
import time
from collections import OrderedDict

from pyvc import front
from spec import schemas as SC
from bounded import gen
from bounded.seams import (api, L, load_corpus, corpus_files, plain, norm, generated_documents, _rec, _exc, _diff,
                           _docs_as_dicts, _has_quote_inside, option_sets, RandomStyle)


# ---------------------------------------------------------------------------------------------
# C07: verdict = schema verdict (fault injection)
# ---------------------------------------------------------------------------------------------

def _valid_docs(tier, seed):
    out = []
    for key, root, path in generated_documents(tier, seed, n_random=20 if tier != "thorough" else 200):
        if key.startswith("outputformat.imagemode:enum:FEATURE"):
            continue
        out.append((key, root, path))
    return out


def b_validate(tier, seed):
    m = api()
    from mappyfile.validator import Validator
    v = Validator()
    fails, n = [], 0
    for key, root, path in _valid_docs(tier, seed):
        text = gen.render(root)
        try:
            d = L(text, include_position=True)
        except Exception:
            continue
        n += 1
        try:
            msgs = m.validate(d)
        except Exception as ex:
            fails.append(dict(key="valid:" + key, error=_exc(ex)))
            continue
        if msgs:
            fails.append(dict(key="valid:" + key, text=text, messages=[x["error"][:100] for x in msgs][:3]))
            continue
        # the verdict ignores letter case of keys and values, and hidden keys
        up = _upper_keys(d)
        n += 1
        try:
            if m.validate(up):
                fails.append(dict(key="case:" + key, error="upper-cased keys/values changed the verdict"))
        except Exception as ex:
            fails.append(dict(key="case:" + key, error=_exc(ex)))
    # single faults at every depth: unknown keyword, enum violation, wrong type, wrong arity, missing required
    rnd = random.Random(seed)
    base_docs = [x for x in _valid_docs(tier, seed) if x[0].startswith("random#")][: (15 if tier != "thorough" else 150)]
    for key, root, path in base_docs:
        d0 = L(gen.render(root), include_position=True)
        objs = list(_objects(d0, []))
        for opath, obj in objs:
            for fault in ("unknown", "enum", "type", "arity", "item"):
                d = copy.deepcopy(d0)
                o = _get(d, opath)
                kw = _inject(o, fault, rnd)
                if kw is None:
                    continue
                n += 1
                try:
                    msgs = m.validate(d)
                except Exception as ex:
                    fails.append(dict(key=f"fault:{fault}:{o['__type__']}.{kw}", doc=key, error=_exc(ex)))
                    continue
                if not msgs:
                    fails.append(dict(key=f"fault:{fault}:{o['__type__']}.{kw}", doc=key, error="no message for an injected fault"))
                    continue
                want = o["__type__"].upper() if fault == "unknown" else kw.upper()
                if not any(x["message"].endswith(" " + want) for x in msgs):
                    fails.append(dict(key=f"fault:{fault}:{o['__type__']}.{kw}", doc=key, messages=[x["message"] for x in msgs][:3], want=want))
                # a list of roots is validated one by one
                if opath == []:
                    n += 1
                    both = m.validate([d, d0])
                    if len(both) != len(msgs) + len(m.validate(d0)):
                        fails.append(dict(key=f"list:{fault}", doc=key, error="list verdict differs from the per-dictionary verdicts"))
    # a list of roots of DIFFERENT types (what loads returns for a file with several top-level blocks): the verdict of the list
    # is the concatenation of the verdicts of its roots, each judged by the schema of its own type - with and without faults
    roots = []
    for t in ("layer", "class", "style", "symbol", "map", "label", "web"):
        node = gen.random_node(t, random.Random(f"{seed}:{t}"))
        try:
            roots.append(L(gen.render(node), include_position=True))
        except Exception:
            pass
    for i in range(len(roots)):
        for j in range(len(roots)):
            if i == j:
                continue
            a, b = copy.deepcopy(roots[i]), copy.deepcopy(roots[j])
            b["zz_unknown_kw"] = "x"
            for lst in ([a, b], [b, a], [copy.deepcopy(roots[i]), copy.deepcopy(roots[j])]):
                n += 1
                try:
                    whole = [(x["message"], x["error"]) for x in m.validate(lst)]
                    parts = [(x["message"], x["error"]) for r in lst for x in m.validate(r)]
                except Exception as ex:
                    fails.append(dict(key=f"mixed-list:{lst[0]['__type__']}+{lst[1]['__type__']}", error=_exc(ex)))
                    continue
                if whole != parts:
                    fails.append(dict(key=f"mixed-list:{lst[0]['__type__']}+{lst[1]['__type__']}", whole=whole[:3], parts=parts[:3]))
    # simultaneous faults: an unknown keyword in EVERY object at once, then a value fault in every object that has a slot for one:
    # the statement wants a message for every faulty object / keyword, so each must be reported at its own position
    SIBLINGS = ("MAP\n NAME 'm'\n LAYER\n  NAME 'a'\n  TYPE POINT\n  STATUS ON\n  CLASS\n   NAME 'c1'\n   STYLE\n    WIDTH 1\n   END\n   STYLE\n    WIDTH 2\n   END\n   LABEL\n    SIZE 8\n   END\n   LABEL\n    SIZE 9\n   END\n  END\n"
                "  CLASS\n   NAME 'c2'\n   STYLE\n    WIDTH 3\n   END\n  END\n END\n LAYER\n  NAME 'b'\n  TYPE LINE\n  STATUS OFF\n  CLASS\n   NAME 'c3'\n  END\n END\n"
                " SYMBOL\n  NAME 's1'\n  TYPE ELLIPSE\n END\n SYMBOL\n  NAME 's2'\n  TYPE ELLIPSE\n END\n OUTPUTFORMAT\n  NAME 'o1'\n  DRIVER 'AGG/PNG'\n END\n OUTPUTFORMAT\n  NAME 'o2'\n  DRIVER 'AGG/PNG'\n END\nEND")
    multi_docs = [(key, L(gen.render(root), include_position=True)) for key, root, path in base_docs] + [("siblings", L(SIBLINGS, include_position=True))]
    for key, d0 in multi_docs:
        for fault in ("unknown", "value"):
            d = copy.deepcopy(d0)
            expect = []
            for opath, obj in list(_objects(d, [])):
                if fault == "unknown":
                    obj["zz_unknown_kw"] = "x"
                    pos = obj.get("__position__") or {}
                    expect.append((obj["__type__"].upper(), pos.get("line"), pos.get("column")))
                else:
                    kw = _inject(obj, "enum", rnd, True) or _inject(obj, "type", rnd, True)
                    if kw is not None:
                        pos = (obj.get("__position__") or {}).get(kw) or {}
                        if isinstance(pos, dict):
                            expect.append((kw.upper(), pos.get("line"), pos.get("column")))
            if len(expect) < 2:
                continue
            n += 1
            try:
                msgs = m.validate(d)
            except Exception as ex:
                fails.append(dict(key=f"multi-fault:{fault}", doc=key, error=_exc(ex)))
                continue
            got = {(x["message"].rsplit(" ", 1)[-1], x.get("line"), x.get("column")) for x in msgs}
            missing = [e for e in expect if e not in got]
            if missing:
                fails.append(dict(key=f"multi-fault:{fault}", doc=key, missing=missing[:4], n_expected=len(expect), n_messages=len(msgs)))
    return _rec("seam/validation-verdict", "schema-valid generated documents of every type; single faults (unknown keyword, enum, type, arity) at every object of random documents; simultaneous faults in every object (each reported at its own position)", n, fails)


def _upper_keys(x):
    if isinstance(x, dict):
        return {(k.upper() if not k.startswith("__") else k): _upper_keys(v) for k, v in x.items()}
    if isinstance(x, list):
        return [_upper_keys(v) for v in x]
    if isinstance(x, str):
        return x.upper() if re.fullmatch(r"[a-z][a-z0-9_-]*", x) else x
    return x


def _objects(d, path):
    if isinstance(d, dict) and "__type__" in d and d["__type__"] in SC.object_types():
        yield path, d
        for k, v in d.items():
            if isinstance(v, dict):
                yield from _objects(v, path + [k])
            elif isinstance(v, list):
                for i, it in enumerate(v):
                    yield from _objects(it, path + [k, i])


def _get(d, path):
    for p in path:
        d = d[p]
    return d


def _inject(o, fault, rnd, present_only=False):
    typ = o["__type__"]
    props = SC.expanded(typ)["properties"]
    if fault == "unknown":
        o["zz_unknown_kw"] = "x"
        return "zz_unknown_kw"
    keys = [k for k in gen.simple_keys(typ) if (k in o or not present_only)]
    rnd.shuffle(keys)
    from spec.render import leaves
    for k in keys:
        lv = leaves(props[k])
        kinds = {l.get("type") for l in lv} | ({"enum"} if any("enum" in l for l in lv) else set())
        if fault == "enum" and kinds == {"enum"} or (fault == "enum" and kinds <= {"enum", None} and all("enum" in l for l in lv)):
            o[k] = "zz_not_in_enum"
            return k
        if fault == "type" and kinds <= {"integer", "number"}:
            o[k] = "zz_not_a_number"
            return k
        if fault == "type" and kinds == {"boolean"}:
            o[k] = "zz_not_a_bool"
            return k
        if fault == "arity" and kinds == {"array"} and all(l.get("minItems") for l in lv):
            o[k] = [1]
            return k
        if fault == "item" and kinds == {"array"} and len(lv) == 1 and isinstance(lv[0].get("items"), dict) \
                and ("maximum" in lv[0]["items"] or "minimum" in lv[0]["items"]) and lv[0].get("minItems"):
            it = lv[0]["items"]
            bad = it["maximum"] + 1000 if "maximum" in it else it["minimum"] - 1000
            nitems = lv[0]["minItems"]
            good = it.get("minimum", it.get("maximum", 0)) if "minimum" in it else it["maximum"]
            o[k] = [good] * (nitems - 1) + [bad]       # the LAST item violates its bound: the error path ends in an item index
            return k
    return None


# ---------------------------------------------------------------------------------------------
# C08: positions
# ---------------------------------------------------------------------------------------------

def b_positions(tier, seed):
    m = api()
    fails, n = [], 0
    rnd = random.Random(seed)
    docs = generated_documents(tier, seed, n_random=25 if tier != "thorough" else 300)
    for key, root, path in docs:
        for rep in range(2 if tier != "thorough" else 4):
            st = RandomStyle(random.Random(rnd.random())) if rep else None
            text = gen.render(root, style=st)
            try:
                d = L(text, include_position=True)
            except Exception:
                continue
            lines = text.split("\n")
            for opath, obj in _objects(d, []):
                pd = obj.get("__position__")
                n += 1
                if not pd:
                    fails.append(dict(key="no-position:" + key, obj=obj["__type__"]))
                    continue
                if not _at(lines, pd["line"], pd["column"], obj["__type__"]):
                    fails.append(dict(key="opener:" + key, obj=obj["__type__"], pos=(pd["line"], pd["column"])))
                for k in obj:
                    if k.startswith("__") or isinstance(obj[k], dict) and "__type__" in obj[k] and k not in ("metadata", "validation", "values", "connectionoptions"):
                        continue
                    if isinstance(obj[k], list) and obj[k] and isinstance(obj[k][0], dict):
                        continue
                    if k in ("metadata", "validation", "values", "connectionoptions"):
                        continue
                    n += 1
                    kp = pd.get(k)
                    if kp is None:
                        fails.append(dict(key=f"keyword-position-missing:{obj['__type__']}.{k}", doc=key))
                        continue
                    if k == "config":
                        kps = list(kp.values())
                    else:
                        kps = kp if isinstance(kp, list) else [kp]
                    for one in kps:
                        if not _at(lines, one["line"], one["column"], "config" if k == "config" else k):
                            fails.append(dict(key=f"keyword-position:{obj['__type__']}.{k}", doc=key, pos=(one["line"], one["column"]), text=text[:200]))
                        vals = one.get("values") or []
                        if vals != sorted(vals):
                            fails.append(dict(key=f"value-positions-not-in-source-order:{obj['__type__']}.{k}", doc=key))
    # validation error locations
    for key, root, path in [x for x in docs if x[0].startswith("random#")][: (12 if tier != "thorough" else 100)]:
        text = gen.render(root)
        d0 = L(text, include_position=True)
        lines = text.split("\n")
        for opath, obj in _objects(d0, []):
            d = copy.deepcopy(d0)
            o = _get(d, opath)
            kw = _inject(o, "item", rnd, True) or _inject(o, "enum", rnd, True) or _inject(o, "type", rnd, True)
            if kw is None:
                continue
            n += 1
            try:
                msgs = m.validate(d)
            except Exception as ex:
                fails.append(dict(key=f"error-location:{o['__type__']}.{kw}", error=_exc(ex)))
                continue
            hit = [x for x in msgs if x["message"].endswith(" " + kw.upper())]
            if not hit or not _at(lines, hit[0].get("line"), hit[0].get("column"), kw):
                fails.append(dict(key=f"error-location:{o['__type__']}.{kw}", msgs=[(x["message"], x.get("line"), x.get("column")) for x in msgs][:3]))
            d = copy.deepcopy(d0)
            o = _get(d, opath)
            o["zz_unknown_kw"] = 1
            n += 1
            msgs = m.validate(d)
            hit = [x for x in msgs if x["message"].endswith(" " + o["__type__"].upper())]
            if not hit or not _at(lines, hit[0].get("line"), hit[0].get("column"), o["__type__"]):
                fails.append(dict(key=f"object-error-location:{o['__type__']}", msgs=[(x["message"], x.get("line"), x.get("column")) for x in msgs][:3]))
    # a bound violated by ONE ITEM of a list value (the error path ends in an item index): still located at the keyword,
    # also when the values stand on later lines than the keyword
    text = ("MAP\n  SIZE 400 300\n  LEGEND\n    KEYSIZE 20\n      10\n    KEYSPACING 5 5\n  END\n  SCALEBAR\n    SIZE\n      200 3\n"
            "  END\n  REFERENCE\n    SIZE 100 100\n    IMAGE 'r.png'\n    EXTENT 0 0 1 1\n  END\n  QUERYMAP\n    SIZE 10 10\n  END\nEND")
    d0 = L(text, include_position=True)
    lines = text.split("\n")
    for opath, obj in _objects(d0, []):
        for kname in [k for k in obj if not k.startswith("__") and isinstance(obj[k], list) and obj[k] and isinstance(obj[k][0], int)]:
            d = copy.deepcopy(d0)
            o = _get(d, opath)
            o[kname] = list(o[kname][:-1]) + [-100000]
            msgs = m.validate(d)
            hit = [x for x in msgs if x["message"].endswith(" " + kname.upper())]
            if not hit:
                continue          # this keyword has no bound on its items
            n += 1
            if not all(_at(lines, h.get("line"), h.get("column"), kname) for h in hit):
                fails.append(dict(key=f"item-error-location:{o['__type__']}.{kname}", msgs=[(x["message"], x.get("line"), x.get("column")) for x in msgs][:3]))
    return _rec("seam/positions", "generated documents (plain and randomly rendered): the text at every recorded line/column starts with the keyword; injected faults (also in one item of a list value) are reported at the keyword / opener", n, fails)


def _at(lines, line, col, word):
    if not isinstance(line, int) or not isinstance(col, int) or line < 1 or line > len(lines):
        return False
    return lines[line - 1][col - 1:col - 1 + len(word)].lower() == word.lower()


# ---------------------------------------------------------------------------------------------
# C09: versions
# ---------------------------------------------------------------------------------------------

def annotated_slots():
    out = []
    for t in SC.object_types():
        for k, s in SC.expanded(t)["properties"].items():
            if isinstance(s, dict) and isinstance(s.get("metadata"), dict) and ("minVersion" in s["metadata"] or "maxVersion" in s["metadata"]):
                out.append((t, k, s["metadata"].get("minVersion", 0.0), s["metadata"].get("maxVersion", 1000.0)))
    return out


def b_versions(tier, seed):
    from mappyfile.validator import Validator
    import tables
    fails, n = [], 0
    reps = tables.representative_versions()
    one = Validator()
    for (t, k, lo, hi) in annotated_slots():
        if (t, k) not in SC.value_slots():
            continue
        alts = gen.alternatives(t, k)
        if not alts:
            continue
        node = gen.minimal(t)
        node.items = [(a, b, c) for (a, b, c) in node.items if a != k]
        node.add(k, "simple", alts[0])
        try:
            d = L(gen.render(node))
        except Exception:
            continue
        base = Validator().validate(d, schema_name=t)
        vs = reps if tier == "thorough" else sorted({lo, hi, lo - 0.05, lo + 0.05, hi - 0.05, hi + 0.05} & set(reps) | {x for x in reps if abs(x - lo) < 0.3 or abs(x - hi) < 0.3})
        for v in vs:
            if not v:
                continue
            n += 1
            try:
                fresh = Validator().validate(d, schema_name=t, version=v)
                reused = one.validate(d, schema_name=t, version=v)
            except Exception as ex:
                fails.append(dict(key=f"{t}.{k}@{v}", error=_exc(ex)))
                continue
            rejected = any(k in x["error"] for x in fresh)
            if rejected != (not (lo <= v <= hi)):
                fails.append(dict(key=f"{t}.{k}@{v}", range=(lo, hi), messages=[x["error"][:80] for x in fresh][:2]))
            if [x["error"] for x in fresh] != [x["error"] for x in reused]:
                fails.append(dict(key=f"history:{t}.{k}@{v}", error="a reused Validator answers differently from a fresh one"))
        n += 1
        if [x["error"] for x in one.validate(d, schema_name=t)] != [x["error"] for x in base]:
            fails.append(dict(key=f"history:{t}.{k}", error="version-less validation changed after versioned validations"))
    return _rec("seam/versions", "every annotated simple keyword x versions around its bounds (thorough: every class of the version partition), fresh and reused Validator", n, fails)


# ---------------------------------------------------------------------------------------------
# C10: expressions
# ---------------------------------------------------------------------------------------------

CMP_OPS = ["=", "==", "!=", "<", "<=", ">", ">=", "~", "~*", "=*", "%", "IN", "EQ", "NE", "LT", "LE", "GT", "GE", "LIKE"]
LEVEL = dict(OR=0, AND=1, NOT=2, CMP=3, SUM=4, PROD=5, UNARY=6, ATOM=7)


def _atoms():
    return [("[a]", "[a]"), ("5", "5"), ('"s t"', '"s t"'), ("'q'", "'q'"), ("2.5", "2.5"), ('tostring([a],"%.2f")', '(tostring([a],"%.2f"))')]


def gen_exprs(rnd, depth):
    """(source text, level of its top operator, reference tree) — reference tree as nested tuples"""
    if depth == 0 or rnd.random() < 0.25:
        src, nrm = rnd.choice(_atoms())
        return src, "ATOM", ("atom", nrm)
    kind = rnd.choice(["OR", "AND", "OR", "AND", "NOT", "CMP", "CMP", "SUM", "PROD", "NEG", "PAREN", "PAREN"])
    if kind == "PAREN":
        s, lv, t = gen_exprs(rnd, depth - 1)
        return f"({s})", "ATOM", ("paren", t)
    if kind == "NOT":
        s, lv, t = gen_exprs(rnd, depth - 1)
        if LEVEL[lv] < LEVEL["CMP"]:
            s, t = f"({s})", ("paren", t)
        sp = rnd.choice(["NOT ", "! ", "not "])
        return sp + s, "NOT", ("not", t)
    if kind == "NEG":
        s, lv, t = gen_exprs(rnd, 0)
        return "-" + s, "UNARY", ("neg", t)
    a, la, ta = gen_exprs(rnd, depth - 1)
    b, lb, tb = gen_exprs(rnd, depth - 1)
    if kind in ("OR", "AND"):
        need_l, need_r = (LEVEL["OR"], LEVEL["AND"]) if kind == "OR" else (LEVEL["AND"], LEVEL["CMP"])
        op = rnd.choice(["OR", "||", "or"] if kind == "OR" else ["AND", "&&", "and"])
        norm_op = kind
    elif kind == "CMP":
        need_l, need_r = LEVEL["CMP"], LEVEL["SUM"]
        op = rnd.choice(CMP_OPS)
        norm_op = op
    elif kind == "SUM":
        need_l, need_r = LEVEL["SUM"], LEVEL["PROD"]
        op = norm_op = rnd.choice(["+", "-"])
    else:
        need_l, need_r = LEVEL["PROD"], LEVEL["UNARY"]
        op = norm_op = rnd.choice(["*", "/", "^"])
    if LEVEL[la] < need_l or la == "NOT":
        a, ta = f"({a})", ("paren", ta)
    if LEVEL[lb] < need_r or lb == "NOT":
        b, tb = f"({b})", ("paren", tb)
    return f"{a} {op} {b}", kind, ("bin", norm_op, ta, tb)


def ref_tree_of_normalised(s):
    """reference precedence parser over the normalised string (independent of the grammar): returns nested tuples
    with parentheses made explicit, so that regrouping shows as a different tree"""
    toks = re.findall(r'\(|\)|"[^"]*"|\'[^\']*\'|`[^`]*`|\[[^\]]*\]|[A-Za-z_][A-Za-z0-9_]*\(|>=|<=|==|!=|=\*|~\*|\|\||&&|[-+*/^=<>~%!,]|[0-9.]+|[A-Za-z]+', s)
    pos = [0]

    def peek():
        return toks[pos[0]] if pos[0] < len(toks) else None

    def take():
        pos[0] += 1
        return toks[pos[0] - 1]

    def p_or():
        t = p_and()
        while peek() and peek().upper() in ("OR", "||"):
            take()
            t = ("bin", "OR", t, p_and())
        return t

    def p_and():
        t = p_not()
        while peek() and peek().upper() in ("AND", "&&"):
            take()
            t = ("bin", "AND", t, p_not())
        return t

    def p_not():
        if peek() and peek().upper() in ("NOT", "!"):
            take()
            return ("not", p_cmp())
        return p_cmp()

    def p_cmp():
        t = p_sum()
        while peek() and peek().upper() in [o.upper() for o in CMP_OPS]:
            op = take()
            t = ("bin", op, t, p_sum())
        return t

    def p_sum():
        t = p_prod()
        while peek() in ("+", "-"):
            op = take()
            t = ("bin", op, t, p_prod())
        return t

    def p_prod():
        t = p_un()
        while peek() in ("*", "/", "^"):
            op = take()
            t = ("bin", op, t, p_un())
        return t

    def p_un():
        if peek() == "-":
            take()
            return ("neg", p_un())
        return p_atom()

    def p_atom():
        t = take()
        if t == "(":
            inner = p_or()
            take()
            return ("paren", inner)
        if t.endswith("("):
            depth, buf = 1, t
            while depth:
                x = take()
                depth += x.endswith("(") or x == "("
                depth -= x == ")"
                buf += x
            return ("atom", buf)
        return ("atom", t)
    return p_or()


def strip_parens(t):
    """semantic tree: parentheses dropped (they only group)"""
    if t[0] == "paren":
        return strip_parens(t[1])
    if t[0] == "bin":
        return ("bin", t[1].upper() if t[1].isalpha() else t[1], strip_parens(t[2]), strip_parens(t[3]))
    if t[0] in ("not", "neg"):
        return (t[0], strip_parens(t[1]))
    if t[0] == "atom":
        a = t[1]
        if a.startswith("(") and a.endswith("))"):
            a = a[1:-1]
        return ("atom", a)
    return t


def b_expressions(tier, seed):
    rnd = random.Random(seed)
    fails, n = [], 0
    N = 1500 if tier != "thorough" else 12000
    for i in range(N):
        src, lv, tree = gen_exprs(rnd, rnd.randint(1, 4))
        for tmpl, key in (("CLASS EXPRESSION ({}) END", "expression"), ("LAYER FILTER ({}) END", "filter")):
            n += 1
            text = tmpl.format(src)
            try:
                d = L(text)
            except Exception as ex:
                fails.append(dict(key=f"parse:{src}", error=_exc(ex)))
                break
            v = d[key]
            try:
                got = strip_parens(ref_tree_of_normalised(v))
            except Exception as ex:
                fails.append(dict(key=f"normalised-unreadable:{src}", value=v, error=_exc(ex)))
                break
            want = strip_parens(("paren", tree))
            if got != want:
                fails.append(dict(key=f"structure:{src}", value=v, got=repr(got)[:200], want=repr(want)[:200]))
                break
            # re-parsing the normalised string yields the same string
            try:
                v2 = L(tmpl.replace("({})", "{}").format(v))[key]
            except Exception as ex:
                fails.append(dict(key=f"reparse:{src}", value=v, error=_exc(ex)))
                break
            if v2 != v:
                fails.append(dict(key=f"not-a-fixpoint:{src}", value=v, again=v2))
                break
    return _rec("seam/expressions", f"{N} random expression trees (all operator spellings, bindings/numbers/strings/function calls, all parenthesisations) in CLASS EXPRESSION and LAYER FILTER, against a reference precedence parser", n, fails)


# ---------------------------------------------------------------------------------------------
# C11: robustness and timing
# ---------------------------------------------------------------------------------------------

def b_fuzz(tier, seed):
    import lark
    rnd = random.Random(seed)
    fails, n = [], 0
    texts = [gen.render(r) for k, r, p in generated_documents(tier, seed, n_random=30)][::7]
    for f in corpus_files()[:: (9 if tier != "thorough" else 2)]:
        with open(f, encoding="utf-8") as fh:
            texts.append(fh.read())
    vocab = ["MAP", "LAYER", "CLASS", "STYLE", "END", "GRID", "SYMBOL", "NAME", "INCLUDE", "PROJECTION", "POINTS", "PATTERN", "METADATA", "CONFIG",
             '"x"', "'y'", "5", "2.5", "[a]", "(", ")", "{", "}", "/re/", "AUTO", "TRUE", "#c", "/*", "*/", "`", "=", "AND", "NOT", "\n", "SYMBOLSET", "VALUES", "FEATURE"]
    N = 300 if tier != "thorough" else 20000
    for i in range(N):
        t = rnd.choice(texts)
        toks = re.findall(r"\S+|\s+", t)[:400]
        op = rnd.random()
        j = rnd.randrange(len(toks)) if toks else 0
        if op < 0.2 and toks:
            del toks[j]
        elif op < 0.4 and toks:
            toks.insert(j, toks[j])
        elif op < 0.55 and len(toks) > 2:
            k = rnd.randrange(len(toks))
            toks[j], toks[k] = toks[k], toks[j]
        elif op < 0.7:
            toks = toks[:j]
        elif op < 0.85:
            toks.insert(j, " " + rnd.choice(vocab) + " ")
        else:
            toks = [rnd.choice(vocab) + " " for _ in range(rnd.randint(1, 12))]
        text = "".join(toks)
        n += 1
        try:
            L(text)
        except lark.exceptions.LarkError as ex:
            if isinstance(ex, lark.exceptions.UnexpectedInput) and (getattr(ex, "line", None) is None or getattr(ex, "column", None) is None):
                fails.append(dict(key="no-line-column", text=text[:200], error=_exc(ex)))
        except RecursionError:
            pass
        except Exception as ex:
            fails.append(dict(key=f"{type(ex).__name__}", text=text[:300], error=_exc(ex)))
    # every block type is accepted as the root of a partial Mapfile
    for t in SC.object_types():
        if t == "symbolset":
            continue
        n += 1
        try:
            d = L(gen.render(gen.minimal(t)))
            assert d["__type__"] == t
        except Exception as ex:
            fails.append(dict(key=f"root:{t}", error=_exc(ex)))
    # timing: doubling experiment (labelled bounded; proves nothing about inputs not tried)
    for name, unit in (("layers", 'LAYER NAME "x" TYPE POINT CLASS STYLE COLOR 1 2 3 END END END\n'), ("unterminated-string", '"aaaa '),
                       ("unterminated-regex", "/aaaa "), ("comment-open", "/* aaa "), ("ops", "[a] + ")):
        best = None
        for attempt in range(3):
            sizes = []
            for k in (1, 2):
                body = unit * (600 * k)
                text = "MAP\n" + body + "END" if name == "layers" else ("CLASS EXPRESSION (" + unit * 40 * k + "1) END" if name == "ops" else "MAP NAME " + body)
                t0 = time.perf_counter()
                try:
                    L(text)
                except Exception:
                    pass
                sizes.append(time.perf_counter() - t0)
            ratio = sizes[1] / max(sizes[0], 1e-4)
            best = ratio if best is None else min(best, ratio)
            if best <= 3.0:
                break
        n += 1
        if best > 3.0 and sizes[1] > 0.05:
            fails.append(dict(key=f"timing:{name}", ratio=round(best, 2), seconds=[round(x, 3) for x in sizes]))
    # catastrophic backtracking shows at small sizes: run in a child process that can be killed
    import multiprocessing as mp
    for name, mk in (("unterminated-dq+backslashes", lambda k: 'MAP NAME "abc' + "\\\\" * k + " END"),
                     ("unterminated-sq+backslashes", lambda k: "MAP NAME 'abc" + "\\\\" * k + " END"),
                     ("unterminated-regex+slashes", lambda k: "CLASS EXPRESSION /a" + "\\/" * k + " END"),
                     ("nested-parens", lambda k: "CLASS EXPRESSION " + "(" * k + "[a]" + " END")):
        times = []
        for k in (14, 28):
            n += 1
            q = mp.get_context("fork").Queue()

            def child(text=mk(k)):
                t0 = time.perf_counter()
                try:
                    L(text)
                except Exception:
                    pass
                q.put(time.perf_counter() - t0)
            pr = mp.get_context("fork").Process(target=child)
            pr.start()
            pr.join(20)
            if pr.is_alive():
                pr.kill()
                pr.join()
                fails.append(dict(key=f"timing:{name}", size=k, error="loads did not return within 20 s"))
                times = None
                break
            times.append(q.get() if not q.empty() else 0.0)
        if times and times[1] > 1.0 and times[1] / max(times[0], 1e-3) > 6:
            fails.append(dict(key=f"timing:{name}", seconds=[round(x, 3) for x in times]))
    return _rec("seam/robustness", f"{N} token-level mutations / token soups (every non-Lark exception is a failure); all block types as root; doubling-time experiment on 5 repetitive / adversarial shapes (ratio <= 3)", n, fails)


# ---------------------------------------------------------------------------------------------
# C12: purity, reuse, threads
# ---------------------------------------------------------------------------------------------

def b_purity(tier, seed):
    m = api()
    from mappyfile.parser import Parser
    from mappyfile.transformer import MapfileToDict
    from mappyfile.pprint import PrettyPrinter
    from mappyfile.validator import Validator
    rnd = random.Random(seed)
    fails, n = [], 0
    docs = [(k, gen.render(r)) for k, r, p in generated_documents(tier, seed, n_random=25)][::5]
    docs = [(k, t) for k, t in docs if _parses(t) and not re.search(r"(?im)^\s*include\s", t)]    # no INCLUDE of files that do not exist
    # arguments are not modified
    for key, text in docs:
        d = L(text)
        snap = pickle.dumps(d)
        n += 1
        m.dumps(d)
        m.validate(d)
        if "layers" in d:
            m.find(d["layers"], "name", "nope")
            m.findall(d["layers"], "group", "nope")
            m.findunique(d["layers"], "group")
        if pickle.dumps(d) != snap:
            fails.append(dict(key="argument-modified:" + key))
    # worker reuse = fresh workers (including failing parses in between and comments on/off)
    p, mt, pp, vv = Parser(), MapfileToDict(), PrettyPrinter(), Validator()
    pc, mc = Parser(include_comments=True), MapfileToDict(include_comments=True)
    seq = [rnd.choice(docs) for _ in range(40 if tier != "thorough" else 400)]
    for i, (key, text) in enumerate(seq):
        n += 1
        if i % 5 == 2:
            try:
                p.parse(text[: len(text) // 2] + " END END (")
            except Exception:
                pass
            try:
                pc.parse("# lost comment\n" + text[: len(text) // 2] + " (")
            except Exception:
                pass
        try:
            a = mt.transform(p.parse(text))
            b = MapfileToDict().transform(Parser().parse(text))
            if pickle.dumps(plain(a)) != pickle.dumps(plain(b)) or pp.pprint(a) != PrettyPrinter().pprint(b):
                fails.append(dict(key="reuse:" + key))
            if i % 2 == 0:
                ctext = "# c1\n" + text + ("\n# trailing, after the last block" if i % 4 == 0 else "")
                ca = mc.transform(pc.parse(ctext))
                cb = MapfileToDict(include_comments=True).transform(Parser(include_comments=True).parse(ctext))
                if json.dumps(ca, default=str) != json.dumps(cb, default=str):
                    fails.append(dict(key="reuse-comments:" + key))
            ver = rnd.choice([None, 5.0, 7.6, 8.0])
            if [x["error"] for x in vv.validate(a, schema_name=a["__type__"], version=ver)] != [x["error"] for x in Validator().validate(b, schema_name=b["__type__"], version=ver)]:
                fails.append(dict(key=f"reuse-validator@{ver}:" + key))
        except Exception as ex:
            fails.append(dict(key="reuse-exception:" + key, error=_exc(ex)))
    # threads (bounded: no schedule is enumerated)
    texts = [t for _, t in docs[:8]]
    want = [m.dumps(m.loads(t)) for t in texts]
    # the same documents with a distinct comment at the end of every line, loaded with comments and positions kept
    ctexts = ["\n".join(f"{ln} # doc {k} line {j}" if ln.strip() and '"' not in ln and "'" not in ln else ln for j, ln in enumerate(t.split("\n")))
              for k, t in enumerate(texts)]
    ctexts = [t for t in ctexts if _parses(t)]
    cwant = [m.dumps(m.loads(t, include_comments=True, include_position=True)) for t in ctexts]
    old = sys.getswitchinterval()
    sys.setswitchinterval(1e-6)
    results = {}

    def work(i):
        out = []
        for j in range(3 if tier != "thorough" else 12):
            t = texts[(i + j) % len(texts)]
            try:
                d = m.loads(t)
                m.validate(d)
                out.append((t, m.dumps(d)))
            except Exception as ex:
                out.append((t, "EXC " + _exc(ex)))
            if ctexts:
                ct = ctexts[(i + j) % len(ctexts)]
                try:
                    out.append((ct, m.dumps(m.loads(ct, include_comments=True, include_position=True))))
                except Exception as ex:
                    out.append((ct, "EXC " + _exc(ex)))
        results[i] = out
    try:
        th = [threading.Thread(target=work, args=(i,)) for i in range(16)]
        [x.start() for x in th]
        [x.join() for x in th]
    finally:
        sys.setswitchinterval(old)
    for i, out in results.items():
        for t, got in out:
            n += 1
            exp = want[texts.index(t)] if t in texts else cwant[ctexts.index(t)]
            if got != exp:
                fails.append(dict(key="threads" + ("" if t in texts else "-with-comments"), thread=i, got=got[:100]))
    return _rec("seam/purity-reuse-threads", "arguments pickled before/after; 40 (thorough 400) step reuse sequences with failing parses in between; 16 threads under switch interval 1e-6, plain and with include_comments/include_position on per-document comments", n, fails)


# ---------------------------------------------------------------------------------------------
# C13: bookkeeping is transparent
# ---------------------------------------------------------------------------------------------

def _parses(text):
    try:
        L(text)
        return True
    except Exception:
        return False


def _strip_hidden(x):
    if isinstance(x, dict):
        return {k: _strip_hidden(v) for k, v in x.items() if not (k.startswith("__") and k.endswith("__")) or k == "__type__"}
    if isinstance(x, (list, tuple)):
        return [_strip_hidden(v) for v in x]
    return x


def _ordered(x):
    if isinstance(x, dict):
        return [(k, _ordered(v)) for k, v in x.items() if not (k.startswith("__") and k.endswith("__")) or k == "__type__"]
    if isinstance(x, (list, tuple)):
        return [_ordered(v) for v in x]
    return x


def b_transparent(tier, seed):
    m = api()
    fails, n = [], 0
    rnd = random.Random(seed)
    items = [(k, gen.render(r, style=RandomStyle(random.Random(rnd.random())) if i % 2 else None)) for i, (k, r, p) in enumerate(generated_documents(tier, seed, n_random=30))]
    if tier != "thorough":
        items = items[::3]
    for f in corpus_files()[:: (6 if tier != "thorough" else 1)]:
        with open(f, encoding="utf-8") as fh:
            items.append(("corpus:" + os.path.basename(f), fh.read()))
    for key, text in items:
        try:
            base = L(text)
        except Exception:
            continue
        want = _ordered(base)
        out0 = m.dumps(base)
        for pos, com in ((True, False), (False, True), (True, True)):
            n += 1
            try:
                d = L(text, include_position=pos, include_comments=com)
            except Exception as ex:
                fails.append(dict(key=f"{key}", flags=(pos, com), error=_exc(ex)))
                continue
            if _ordered(d) != want:
                fails.append(dict(key=f"content:{key}", flags=(pos, com), diff=_diff(_strip_hidden(base), _strip_hidden(d))))
                continue
            try:
                out = m.dumps(d)
            except Exception as ex:
                fails.append(dict(key=f"dumps:{key}", flags=(pos, com), error=_exc(ex)))
                continue
            if not com and out != out0:
                fails.append(dict(key=f"position-printed:{key}", flags=(pos, com)))
            if com:
                try:
                    if norm(L(out)) != norm(L(out0)):
                        fails.append(dict(key=f"comments-change-content:{key}", flags=(pos, com)))
                except Exception as ex:
                    fails.append(dict(key=f"comment-output-unreadable:{key}", flags=(pos, com), error=_exc(ex)))
    return _rec("seam/bookkeeping-transparent", "generated (plain / randomly rendered with comments) and corpus documents under the 3 non-default flag combinations", n, fails)


# ---------------------------------------------------------------------------------------------
# C14: comments
# ---------------------------------------------------------------------------------------------

def b_comments(tier, seed):
    m = api()
    fails, n = [], 0
    rnd = random.Random(seed)
    docs = [(k, r) for k, r, p in generated_documents(tier, seed, n_random=30) if _parses(gen.render(r))]
    docs = docs[:: (6 if tier != "thorough" else 1)]
    for key, root in docs:
        text = gen.render(root)
        lines = text.split("\n")
        out_lines, expect_end, expect_above, cid, banners = [], {}, {}, 0, []
        used = set()       # comment texts that are just a keyword / block name (each used once per document, so texts stay distinct)
        for i, ln in enumerate(lines):
            s = ln.strip()
            word = s.split(" ")[0].upper() if s else ""
            is_opener = (" " not in s) and (word.lower() in SC.object_types() or word in ("METADATA", "VALIDATION", "CONNECTIONOPTIONS"))
            simple = (" " in s) and not is_opener and word not in ("END", "CONFIG", "PROCESSING", "FORMATOPTION", "INCLUDE", "COMPFILTER") \
                and not s.startswith('"') and not re.match(r"^[-0-9.]", s)
            if is_opener and rnd.random() < 0.6:
                cid += 1
                c = f"# above {cid} {word}"
                label = rnd.choice(["# " + word.lower(), "#" + word, "## " + word.title(), "# " + word.title()])
                if rnd.random() < 0.3 and label.lower() not in used:
                    used.add(label.lower())
                    c = label
                pad = " " * (len(ln) - len(ln.lstrip()))
                if rnd.random() < 0.35:
                    # a banner: identical rule lines above and below the text
                    rule = "#" + "=" * 12
                    out_lines += [pad + rule, pad + c, pad + rule]
                    banners.append(([rule, c, rule], word))
                else:
                    out_lines.append(pad + c)
                expect_above[c] = word
            if simple and rnd.random() < 0.6:
                cid += 1
                c = f"# end {cid}" if cid % 3 else f"/* end {cid} */"
                label = "# " + word.lower()
                if rnd.random() < 0.25 and label not in used:
                    used.add(label)
                    c = label
                out_lines.append(ln + " " + c)
                expect_end[c] = s
            else:
                out_lines.append(ln)
        ctext = "\n".join(out_lines)
        n += 1
        try:
            d = L(ctext, include_comments=True)
            out = m.dumps(d)
            plain_out = m.dumps(L(ctext))
        except Exception as ex:
            fails.append(dict(key="comments:" + key, error=_exc(ex)))
            continue
        src_comments = list(expect_end) + list(expect_above) + ["#" + "=" * 12]
        printed = re.findall(r"#[^\n]*|/\*.*?\*/", re.sub(r'"[^"\n]*"', '""', out))
        for c in printed:
            if c.strip() not in src_comments:
                fails.append(dict(key="invented-comment:" + key, comment=c))
        n_rules = 2 * len(banners)
        for c in set(printed):
            allowed = n_rules if c.strip() == "#" + "=" * 12 else 1
            if printed.count(c) > allowed:
                fails.append(dict(key="duplicated-comment:" + key, comment=c))
        stripped = [l.strip() for l in out.split("\n")]
        for group, word in banners:
            found = False
            for i in range(len(stripped) - 3):
                if stripped[i:i + 3] == group and stripped[i + 3].upper().startswith(word):
                    found = True
            if not found:
                fails.append(dict(key="banner-above-opener-changed:" + key, banner=group, opener=word))
        try:
            if norm(L(out)) != norm(L(plain_out)):
                fails.append(dict(key="comments-change-content:" + key))
        except Exception as ex:
            fails.append(dict(key="comment-output-unreadable:" + key, error=_exc(ex), out=out[:300]))
            continue
        olines = out.split("\n")
        for c, src in expect_end.items():
            kw = src.split(" ")[0].upper()
            hit = [l for l in olines if l.rstrip().endswith(c)]
            if not hit or not hit[0].strip().upper().startswith(kw):
                fails.append(dict(key=f"end-of-line-comment-moved:{key}", comment=c, keyword=kw, line=hit[:1]))
        for c, word in expect_above.items():
            idx = [i for i, l in enumerate(olines) if l.strip() == c]
            if not idx or idx[0] + 1 >= len(olines) or not _next_opener(olines, idx[0]).upper().startswith(word):
                fails.append(dict(key=f"block-comment-moved:{key}", comment=c, opener=word, next=olines[idx[0] + 1: idx[0] + 2] if idx else None))
    # /* */ comments that span lines, above openers and after simple keywords (text-based checks: verbatim, once, nothing
    # invented, output loads to the plain content, placement)
    for key, root in docs[:: (3 if tier != "thorough" else 1)]:
        lines = gen.render(root).split("\n")
        out_lines, above, after, cid = [], {}, {}, 0
        for ln in lines:
            st = ln.strip()
            word = st.split(" ")[0].upper() if st else ""
            pad = " " * (len(ln) - len(ln.lstrip()))
            is_opener = (" " not in st) and (word.lower() in SC.object_types() or word in ("METADATA", "VALIDATION", "CONNECTIONOPTIONS"))
            simple = (" " in st) and not is_opener and word not in ("END", "CONFIG", "PROCESSING", "FORMATOPTION", "INCLUDE", "COMPFILTER") \
                and not st.startswith('"') and not re.match(r"^[-0-9.]", st)
            if is_opener and rnd.random() < 0.5:
                cid += 1
                c = f"/* above {cid} {word}\n{pad}   continued on a second line */"
                out_lines.append(pad + c)
                above[c] = word
            if simple and rnd.random() < 0.4:
                cid += 1
                c = f"/* after {cid}\n{pad}      second line */"
                out_lines.append(ln + " " + c)
                after[c] = word
            else:
                out_lines.append(ln)
        if not above and not after:
            continue
        ctext = "\n".join(out_lines)
        n += 1
        try:
            out = m.dumps(L(ctext, include_comments=True))
            want_content = norm(L(ctext))
            got_content = norm(L(out))
        except Exception as ex:
            fails.append(dict(key="multiline-comments:" + key, error=_exc(ex), text=ctext[:300]))
            continue
        if got_content != want_content:
            fails.append(dict(key="multiline-comments-change-content:" + key))
        blank = re.sub(r'"[^"\n]*"|\'[^\'\n]*\'', '""', out)
        printed = re.findall(r"/\*.*?\*/|#[^\n]*", blank, flags=re.S)
        for c in printed:
            if c not in above and c not in after:
                fails.append(dict(key="multiline-comment-invented:" + key, comment=c[:80]))
                break
        for c, word in list(above.items()) + list(after.items()):
            k = out.count(c)
            if k > 1:
                fails.append(dict(key="multiline-comment-duplicated:" + key, comment=c[:60]))
            if k != 1:
                continue      # a comment may be dropped (placement clauses only speak about the ones written)
            i = out.index(c)
            if c in above:
                rest = re.sub(r"^(\s|/\*.*?\*/|#[^\n]*)*", "", out[i + len(c):], flags=re.S)
                if not rest.upper().startswith(word):
                    fails.append(dict(key="multiline-comment-not-above-its-block:" + key, comment=c[:60], next=rest[:30]))
            else:
                line_start = out.rfind("\n", 0, i) + 1
                if not out[line_start:i].strip().upper().startswith(word):
                    fails.append(dict(key="multiline-comment-not-after-its-keyword:" + key, comment=c[:60], before=out[line_start:i][:40]))
    # corpus: verbatim / no duplication / content
    for f in corpus_files()[:: (5 if tier != "thorough" else 1)]:
        with open(f, encoding="utf-8") as fh:
            text = fh.read()
        if "#" not in text and "/*" not in text:
            continue
        try:
            L(text)
        except Exception:
            continue          # a corpus file the grammar does not accept at all (reported by C01's corpus round trip, not a comment matter)
        n += 1
        try:
            d = L(text, include_comments=True)
            out = m.dumps(d)
        except Exception as ex:
            fails.append(dict(key="corpus:" + os.path.basename(f), error=_exc(ex)))
            continue
        src = [c.strip() for c in re.findall(r"#[^\n]*|/\*.*?\*/", re.sub(r'"[^"\n]*"|\'[^\'\n]*\'', '""', text), flags=re.S)]
        printed = [c.strip() for c in _printed_comments(d)]
        for c in printed:
            if c not in text:
                fails.append(dict(key="corpus-invented:" + os.path.basename(f), comment=c[:80]))
                break
        for c in set(printed):
            if printed.count(c) > src.count(c) and src.count(c) > 0:
                fails.append(dict(key="corpus-duplicated:" + os.path.basename(f), comment=c[:80]))
                break
    return _rec("seam/comments", "one-keyword-per-line generated layouts with # and /* */ comments at line ends of simple keywords and above openers; corpus files with their own comments", n, fails)


def _next_opener(olines, i):
    j = i + 1
    while j < len(olines) and olines[j].strip().startswith(("#", "/*")):
        j += 1
    return olines[j].strip() if j < len(olines) else ""


def _printed_comments(d):
    out = []
    if isinstance(d, dict):
        c = d.get("__comments__")
        if isinstance(c, dict):
            for v in c.values():
                out += v if isinstance(v, list) else [v]
        elif isinstance(c, list):
            out += c
        for k, v in d.items():
            if k != "__comments__":
                out += _printed_comments(v)
    elif isinstance(d, list):
        for v in d:
            out += _printed_comments(v)
    return [x for x in out if isinstance(x, str)]
