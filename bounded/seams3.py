"""Bounded stand-ins, part 3 (includes, layout, dictionaries, update/find, vocabulary, front ends, helper lemmas)."""
from __future__ import annotations
import copy
import io
import itertools
import json
import os
import pickle
import random
import re
import shutil
import subprocess
import sys
import tempfile
from collections import OrderedDict

from pyvc import front
from spec import schemas as SC
from bounded import gen
from bounded.seams import (api, L, load_corpus, corpus_files, plain, norm, generated_documents, _rec, _exc, _diff,
                           _docs_as_dicts, _has_quote_inside, option_sets)

SCRATCH = os.environ.get("TMPDIR", "/var/tmp")


# ---------------------------------------------------------------------------------------------
# C15: includes
# ---------------------------------------------------------------------------------------------

def _ref_name(line):
    """spec: second blank-separated word of the part before '#', outer quotes removed"""
    part = line.split("#")[0]
    words = part.split()
    return words[1].strip("'").strip('"')


def b_include_filename(tier, seed):
    from mappyfile.parser import Parser
    import lark
    p = Parser()
    fails, n = [], 0
    names = ["a.map", "dir/a.map", "/abs/x.map", "a-b_c.map", "../up.map"]
    for lead, kw, gap, q, name, trail, cm in itertools.product(["", "  ", "\t"], ["INCLUDE", "include", "Include"], [" ", "   ", "\t"],
                                                                ['"', "'", ""], names, ["", "  "], ["", " # c", "#c", ' # "q"']):
        line = f"{lead}{kw}{gap}{q}{name}{q}{trail}{cm}"
        n += 1
        try:
            got = p._get_include_filename(line)
        except Exception as ex:
            fails.append(dict(key=f"raises:{line!r}", error=_exc(ex)))
            continue
        if got != name:
            fails.append(dict(key=f"name:{line!r}", got=got, want=name))
    for line in ["INCLUDE", "  include  ", "INCLUDE # x", "include\t"]:
        n += 1
        try:
            p._get_include_filename(line)
            fails.append(dict(key=f"accepted-without-a-name:{line!r}"))
        except lark.exceptions.LarkError:
            pass
        except Exception as ex:
            fails.append(dict(key=f"non-parse-error:{line!r}", error=_exc(ex)))
    return _rec("lemma/_get_include_filename", "3240 include lines (leading blanks x keyword case x gap x quote style x 5 names x trailing blanks x 4 comment forms) + 4 lines without a name (exhaustive over this grid)", n, fails)


def b_includes(tier, seed):
    m = api()
    rnd = random.Random(seed)
    fails, n = [], 0
    N = 12 if tier != "thorough" else 150
    root_dir = tempfile.mkdtemp(prefix="mappyfile-verif-inc-", dir=SCRATCH)
    cwd0 = os.getcwd()
    try:
        for case in range(N):
            base = os.path.join(root_dir, f"c{case}")
            os.makedirs(os.path.join(base, "sub", "deep"), exist_ok=True)
            node = gen.random_node("map", rnd)
            text = gen.render(node)
            lines = text.split("\n")
            depth_target = rnd.choice([0, 1, 2, 3, 5, 5, 6, 7]) if case % 3 == 0 else rnd.randint(0, 4)
            files = {}
            counter = [0]

            def split(ls, depth, maxdepth):
                """cut whole blocks / keyword lines out into include files (returns the new line list)"""
                if depth >= maxdepth or len(ls) < 3:
                    return ls
                out = []
                i = 0
                cuts = 0
                while i < len(ls):
                    ln = ls[i]
                    word = ln.strip().split(" ")[0].lower()
                    is_block = (" " not in ln.strip()) and word in SC.object_types() and i > 0
                    if (is_block or (" " in ln.strip() and not ln.strip().startswith('"'))) and cuts < 4 and rnd.random() < (0.5 if depth < maxdepth else 0) and i > 0 and ln.strip().split(" ")[0].upper() not in ("END", "CONFIG") and not re.match(r"^\s*[-0-9\"]", ln):
                        if is_block:
                            ind = len(ln) - len(ln.lstrip())
                            j = i + 1
                            while j < len(ls) and not (ls[j].strip().upper() == "END" and len(ls[j]) - len(ls[j].lstrip()) == ind):
                                j += 1
                            chunk = ls[i:j + 1]
                            i = j + 1
                        else:
                            word0 = ln.strip().split(" ")[0].upper()
                            if word0 in ("METADATA", "VALIDATION", "VALUES", "CONNECTIONOPTIONS", "PROJECTION", "POINTS", "PATTERN"):
                                out.append(ln)
                                i += 1
                                continue
                            chunk = [ln]
                            i += 1
                        counter[0] += 1
                        sub = rnd.choice(["", "sub", os.path.join("sub", "deep")])
                        fname = os.path.join(sub, f"inc{counter[0]}.map")
                        files[fname] = "\n".join(split(chunk, depth + 1, maxdepth))
                        ref = fname if rnd.random() < 0.7 else os.path.join(base, fname)
                        q = rnd.choice(['"', "'", ""])
                        out.append(f"  {rnd.choice(['INCLUDE', 'include'])} {q}{ref}{q}" + rnd.choice(["", "  # an include"]))
                        cuts += 1
                    else:
                        out.append(ln)
                        i += 1
                return out
            inside = _protected_lines(lines)
            top = split(lines, 0, depth_target) if not inside else lines
            nl = rnd.choice(["\n", "\n", "\r\n"])

            def decoy(content):
                # a # comment line that merely mentions comment openers / the word INCLUDE must not disturb the directives after it
                if rnd.random() < 0.5:
                    return content
                ls = content.split("\n")
                extra = rnd.choice(["  # tiles are in /data/tiles/*.tif", "  # see */ and /* in the docs", "  # the next INCLUDE lines are expanded", "  #INCLUDE \"not-a-directive.map\" is not at the start of this line"])
                k = 1 if len(ls) > 1 and not ls[0].strip().lower().startswith("include") else 0
                return "\n".join(ls[:k] + [extra] + ls[k:])
            for fn, content in files.items():
                with open(os.path.join(base, fn), "w", encoding="utf-8", newline="") as fh:
                    fh.write(decoy(content).replace("\n", nl))
            root_fn = os.path.join(base, "root.map")
            with open(root_fn, "w", encoding="utf-8", newline="") as fh:
                fh.write(decoy("\n".join(top)).replace("\n", nl))
            os.chdir(rnd.choice([cwd0, root_dir, os.path.join(base, "sub")]))
            n += 1
            nesting = _nesting(top, files)
            try:
                want = plain(L(text))
            except Exception:
                continue
            try:
                got = m.open(root_fn)
                if nesting > 5:
                    fails.append(dict(key=f"depth-{nesting}-accepted", case=case))
                    continue
            except ValueError as ex:
                if nesting <= 5:
                    fails.append(dict(key=f"depth-{nesting}-refused", case=case, error=_exc(ex)))
                continue
            except Exception as ex:
                fails.append(dict(key="open-failed", case=case, nesting=nesting, error=_exc(ex)))
                continue
            if plain(got) != want:
                fails.append(dict(key="include-not-textual-substitution", case=case, diff=_diff(want, plain(got))))
            with open(root_fn, encoding="utf-8") as fh:
                n += 1
                if plain(m.load(fh)) != want:
                    fails.append(dict(key="load(fp)-differs", case=case))
            # expand_includes=False keeps the directives as data and writes them back
            if any(ln.strip().lower().startswith("include") and '"' not in ln and "'" not in ln for ln in top):
                continue      # an unquoted file name is only read by the include scanner, not by the grammar
            kept = m.open(root_fn, expand_includes=False)
            n += 1
            incs = [ln.split("#")[0].split()[1].strip("'\"") for ln in top if ln.strip().lower().startswith("include")]
            if sorted(_collect(kept, "include")) != sorted(incs):
                fails.append(dict(key="unexpanded-includes-not-kept", case=case, got=_collect(kept, "include"), want=incs))
            back = m.dumps(kept)
            if sorted(re.findall(r'INCLUDE "([^"]*)"', back)) != sorted(incs):
                fails.append(dict(key="unexpanded-includes-not-written-back", case=case))
        # missing file, cyclic inclusion
        base = os.path.join(root_dir, "errs")
        os.makedirs(base, exist_ok=True)
        with open(os.path.join(base, "missing.map"), "w") as fh:
            fh.write('MAP\nINCLUDE "nope.map"\nEND')
        with open(os.path.join(base, "cyc.map"), "w") as fh:
            fh.write('MAP\nINCLUDE "cyc2.map"\nEND')
        with open(os.path.join(base, "cyc2.map"), "w") as fh:
            fh.write('INCLUDE "cyc2.map"\n')
        n += 2
        try:
            m.open(os.path.join(base, "missing.map"))
            fails.append(dict(key="missing-file-accepted"))
        except IOError:
            pass
        except Exception as ex:
            fails.append(dict(key="missing-file-wrong-error", error=_exc(ex)))
        try:
            m.open(os.path.join(base, "cyc.map"))
            fails.append(dict(key="cycle-accepted"))
        except ValueError:
            pass
        except Exception as ex:
            fails.append(dict(key="cycle-wrong-error", error=_exc(ex)))
    finally:
        os.chdir(cwd0)
        shutil.rmtree(root_dir, ignore_errors=True)
    return _rec("seam/includes", f"{N} random include trees cut out of generated documents (fan-out <= 4, depth 0..7, nested directories, relative/absolute, quoted/unquoted, LF/CRLF, three working directories) + missing file + cycle", n, fails)


def _protected_lines(lines):
    return False


def _nesting(top, files):
    def depth_of(ls):
        d = 0
        for ln in ls:
            if ln.strip().lower().startswith("include"):
                ref = ln.split("#")[0].split()[1].strip("'\"")
                key = next((k for k in files if ref.endswith(k)), None)
                if key is not None:
                    d = max(d, 1 + depth_of(files[key].split("\n")))
        return d
    return depth_of(top)


def _collect(d, key):
    out = []
    if isinstance(d, dict):
        for k, v in d.items():
            if k == key and isinstance(v, list):
                out += v
            else:
                out += _collect(v, key)
    elif isinstance(d, list):
        for v in d:
            out += _collect(v, key)
    return out


# ---------------------------------------------------------------------------------------------
# C16: layout oracle on real output
# ---------------------------------------------------------------------------------------------

def b_layout(tier, seed):
    m = api()
    fails, n = [], 0
    docs = _docs_as_dicts(tier, seed, 60 if tier != "thorough" else None)
    rnd = random.Random(seed)
    if tier != "thorough":
        docs = docs[::4]
    for key, d in docs:
        if any("\n" in v for v in _strings(d)):
            continue
        for o in option_sets(tier, seed, 2)[:4 if tier != "thorough" else 12]:
            if o["newlinechar"] == " " or _has_quote_inside(d, o["quote"]):
                continue
            n += 1
            try:
                out = m.dumps(copy.deepcopy(d), **o)
            except Exception as ex:
                fails.append(dict(key="dumps:" + key, options=o, error=_exc(ex)))
                continue
            err = _check_layout(out, o)
            if err:
                fails.append(dict(key="layout:" + key, options={k: v for k, v in o.items()}, error=err))
    return _rec("seam/layout", "real dumps output of generated/corpus documents under sampled option sets, checked line by line against the layout statement", n, fails)


def _strings(d):
    if isinstance(d, dict):
        for v in d.values():
            yield from _strings(v)
    elif isinstance(d, (list, tuple)):
        for v in d:
            yield from _strings(v)
    elif isinstance(d, str):
        yield d


BLOCK_WORDS = None


def _check_layout(out, o):
    global BLOCK_WORDS
    if BLOCK_WORDS is None:
        BLOCK_WORDS = {t.upper() for t in SC.object_types()} | {"METADATA", "VALIDATION", "VALUES", "CONNECTIONOPTIONS", "PROJECTION", "POINTS", "PATTERN", "SYMBOLSET"}
    nl = o["newlinechar"]
    unit = o["spacer"] * o["indent"]
    lines = out.split(nl)
    if nl == "\r\n" and any("\n" in ln or "\r" in ln for ln in lines):
        return "a line break that is not newlinechar"
    if nl == "\n" and "\r" in out:
        return "a line break that is not newlinechar"
    stack = []
    for i, ln in enumerate(lines):
        body = ln[len(unit) * len(stack):] if unit else ln.lstrip(o["spacer"])
        if unit and not ln.startswith(unit * len(stack)):
            # END dedents by one
            pass
        s = ln.strip(" \t")
        if not s or s.startswith("#") or s.startswith("/*"):
            continue
        word = s.split(" ")[0]
        if word == "END" and (len(s) == 3 or s[3:].startswith(" # ")):
            if not stack:
                return f"line {i + 1}: END without an open block"
            opener, depth = stack.pop()
            if ln[:len(ln) - len(ln.lstrip(o["spacer"] or " "))] != unit * depth and unit:
                return f"line {i + 1}: END of {opener} not at the opener's indentation"
            if o["end_comment"] and opener.lower() in SC.object_types():
                if s != f"END # {opener}":
                    return f"line {i + 1}: END comment {s!r} does not name {opener}"
            continue
        depth = len(stack)
        if unit:
            lead = ln[:len(ln) - len(ln.lstrip(o["spacer"]))]
            if lead != unit * depth:
                return f"line {i + 1}: {s[:30]!r} indented by {len(lead)} characters, expected depth {depth} x indent {o['indent']}"
        if s in BLOCK_WORDS and " " not in s:
            stack.append((s, depth))
    if stack:
        return f"unclosed block {stack[-1][0]}"
    if o["align_values"]:
        # within one object the values of simple keywords start in one column, a multiple of indent
        groups = {}
        stack = []
        for ln in lines:
            s = ln.strip(" \t")
            if not s or s.startswith("#"):
                continue
            if s.split(" ")[0] == "END":
                if stack:
                    stack.pop()
                continue
            if s in BLOCK_WORDS and " " not in s:
                stack.append((s, len(groups)))
                groups[len(groups)] = (s, [])
                continue
            if stack and stack[-1][0].lower() in SC.object_types() and not s.startswith(("CONFIG ", '"')):
                mm = re.match(r"^(\S+)( +)(.*)$", s)
                if mm and not re.match(r"^[-0-9.]", s):
                    groups[stack[-1][1]][1].append((mm.group(1), len(mm.group(1)) + len(mm.group(2))))
        step = max(1, o["indent"])
        for gid, (name, kws) in groups.items():
            kws = [(k, c) for k, c in kws if k.upper() not in ("PROCESSING", "FORMATOPTION", "INCLUDE", "COMPFILTER") or True]
            if not kws:
                continue
            cols = {c for _, c in kws}
            longest = max(len(k) for k, _ in kws)
            if len(cols) != 1:
                return f"values of {name} start in columns {sorted(cols)}"
            c = cols.pop()
            if c % step or c <= longest or c - step > longest:
                return f"alignment column {c} of {name}: not the first multiple of {step} past the longest keyword ({longest})"
    return None


# ---------------------------------------------------------------------------------------------
# C17: exhaustive operation sequences against the reference model
# ---------------------------------------------------------------------------------------------

def b_odict(tier, seed):
    from mappyfile.ordereddict import CaseInsensitiveOrderedDict as CIOD, DefaultOrderedDict as DOD
    from mappyfile.tokens import OBJECT_LIST_KEYS
    fails, n = [], 0
    KEYS = ["a", "A", "b", "layers"]
    VALS = [1, [1], {"x": 1}, None]

    class Ref:
        """ordinary ordered dict keyed by the lower-cased keys"""
        def __init__(self, factory):
            self.d, self.f = OrderedDict(), factory

        def lk(self, k):
            return k.lower() if isinstance(k, str) else k

        def op(self, name, k, v):
            k = self.lk(k)
            if name == "get[]":
                if k in self.d:
                    return ("ok", self.d[k])
                if self.f is None:
                    return ("KeyError",)
                self.d[k] = [] if k in OBJECT_LIST_KEYS else {}
                return ("ok", self.d[k])
            if name == "set":
                self.d[k] = v
                return ("ok", None)
            if name == "del":
                if k in self.d:
                    del self.d[k]
                    return ("ok", None)
                return ("KeyError",)
            if name == "in":
                return ("ok", k in self.d)
            if name == "get":
                return ("ok", self.d.get(k, v))
            if name == "pop":
                return ("ok", self.d.pop(k, v))
            if name == "pop1":
                if k in self.d:
                    return ("ok", self.d.pop(k))
                return ("KeyError",)
            if name == "setdefault":
                return ("ok", self.d.setdefault(k, v))
            if name == "update":
                self.d[k] = v
                return ("ok", None)
            if name == "update_kw":
                self.d[k] = v
                return ("ok", None)
            raise ValueError(name)

    def real_op(d, name, k, v):
        try:
            if name == "get[]":
                return ("ok", d[k])
            if name == "set":
                d[k] = v
                return ("ok", None)
            if name == "del":
                del d[k]
                return ("ok", None)
            if name == "in":
                return ("ok", (k in d) and d.has_key(k))
            if name == "get":
                return ("ok", d.get(k, v))
            if name == "pop":
                return ("ok", d.pop(k, v))
            if name == "pop1":
                return ("ok", d.pop(k))
            if name == "setdefault":
                return ("ok", d.setdefault(k, v))
            if name == "update":
                d.update({k: v})
                return ("ok", None)
            if name == "update_kw":
                d.update(**{k: v})
                return ("ok", None)
        except KeyError:
            return ("KeyError",)
    OPS = ["get[]", "set", "del", "in", "get", "pop", "pop1", "setdefault", "update", "update_kw"]
    LEN = 3 if tier != "thorough" else 4
    steps = [(o, k, v) for o in OPS for k in KEYS for v in (VALS if o in ("set", "get", "pop", "setdefault", "update", "update_kw") else [None])]
    rnd = random.Random(seed)
    for factory in (CIOD, None):
        seqs = itertools.product(steps, repeat=LEN)
        if True:
            # the full product is too large: all sequences of length 2 exhaustively, longer ones sampled
            seqs = list(itertools.product(steps, repeat=2)) + [tuple(rnd.choice(steps) for _ in range(rnd.randint(3, 8))) for _ in range(3000 if tier != "thorough" else 60000)]
        for seq in seqs:
            d = CIOD(factory)
            ref = Ref(factory)
            n += 1
            bad = None
            for (o, k, v) in seq:
                v1, v2 = copy.deepcopy(v), copy.deepcopy(v)
                a, b = real_op(d, o, k, v1), ref.op(o, k, v2)
                if a[0] != b[0] or (a[0] == "ok" and not _eqv(a[1], b[1])):
                    bad = f"{o}({k!r}) -> {a!r} vs reference {b!r}"
                    break
                if [(kk, _freeze(vv)) for kk, vv in d.items()] != [(kk, _freeze(vv)) for kk, vv in ref.d.items()]:
                    bad = f"after {o}({k!r}): items {list(d.items())!r} vs {list(ref.d.items())!r}"
                    break
                if any(isinstance(kk, str) and kk != kk.lower() for kk in d.keys()):
                    bad = f"after {o}({k!r}): a stored key is not lower-case"
                    break
            if bad is None:
                # copy / deepcopy / pickle round trips
                for nm, mk in (("copy", lambda: copy.copy(d)), ("copy()", lambda: d.copy()), ("deepcopy", lambda: copy.deepcopy(d)),
                               ("pickle", lambda: pickle.loads(pickle.dumps(d)))):
                    try:
                        c = mk()
                    except Exception as e:
                        bad = f"{nm} raised {type(e).__name__}: {e}"
                        break
                    if type(c) is not CIOD or list(c.items()) != list(d.items()) or c.default_factory is not d.default_factory:
                        bad = f"{nm} differs"
                        break
            if bad is None:
                dc = copy.deepcopy(d)
                for kk, vv in dc.items():
                    if isinstance(vv, (list, dict)) and vv is d[kk]:
                        bad = "deepcopy shares a mutable value"
                c2 = copy.copy(d)
                c2["zz_new"] = 1
                if "zz_new" in d:
                    bad = "copy shares the key table"
                if "Zz_New" not in c2:
                    bad = "copy lost case-insensitivity"
            if bad:
                fails.append(dict(key=f"sequence-{len(fails)}", factory=bool(factory), seq=repr(seq)[:300], error=bad))
                if len(fails) > 20:
                    break
    return _rec("seam/case-insensitive-ordered-dict", "all operation sequences of length 2 over 4 keys x 3 value kinds x 10 operations (exhaustive), plus seeded random sequences of length 3..8, with and without a default factory, against the reference model; copy/deepcopy/pickle after each", n, fails)


def _freeze(v):
    if isinstance(v, dict):
        return ("dict", tuple((k, _freeze(x)) for k, x in v.items()))
    if isinstance(v, list):
        return ("list", tuple(_freeze(x) for x in v))
    return v


def _eqv(a, b):
    return _freeze(a) == _freeze(b)


# ---------------------------------------------------------------------------------------------
# C18: update / find against executable specs
# ---------------------------------------------------------------------------------------------

def spec_update(d1, d2, overwrite=True):
    """reference merge written from the statement"""
    if d2.get("__delete__", False):
        return {}
    for k, v in d2.items():
        if isinstance(v, dict):
            if v.get("__delete__", False):
                del d1[k]
            else:
                d1[k] = spec_update(d1[k] if k in d1 else {}, v, overwrite)
        elif isinstance(v, (list, tuple)) and all(x is None or isinstance(x, dict) for x in v):
            old = list(d1[k]) if k in d1 else []
            new = []
            for i in range(max(len(old), len(v))):
                o = old[i] if i < len(old) else {}
                p = v[i] if i < len(v) else None
                if p is None:
                    new.append(o)
                elif p.get("__delete__", False):
                    continue
                else:
                    new.append(spec_update(o if o is not None else {}, p, overwrite))
            d1[k] = new
        elif v == "__delete__" and k in d1:
            del d1[k]
        elif overwrite or k not in d1:
            d1[k] = v
    return d1


def b_update_find(tier, seed):
    m = api()
    from mappyfile.ordereddict import CaseInsensitiveOrderedDict as CIOD
    rnd = random.Random(seed)
    fails, n = [], 0
    KEYS = ["a", "b", "c", "web", "layers"]

    def rand_dict(depth, patch=False, mapfile=False):
        d = CIOD(CIOD) if mapfile else {}
        for k in rnd.sample(KEYS, rnd.randint(0, 4)):
            r = rnd.random()
            if k == "layers":
                d[k] = [(None if patch and rnd.random() < 0.2 else rand_dict(depth + 1, patch, mapfile)) for _ in range(rnd.randint(0, 3))] if depth < 2 else []
                if patch and d[k] and rnd.random() < 0.2 and isinstance(d[k][0], dict):
                    d[k][0]["__delete__"] = True
            elif k == "web" and depth < 2:
                d[k] = rand_dict(depth + 1, patch, mapfile)
                if patch and rnd.random() < 0.15:
                    d[k]["__delete__"] = True
            elif patch and r < 0.15:
                d[k] = "__delete__"
            else:
                d[k] = rnd.choice([1, "x", 2.5, True, [1, 2], "y", 0, "", False, 0.0, None] + ([] if patch else [[]]))
        return d
    N = 400 if tier != "thorough" else 8000
    for i in range(N):
        mapfile = i % 2 == 0
        d1, d2, ow = rand_dict(0, False, mapfile), rand_dict(0, True), rnd.random() < 0.7
        n += 1
        a1, a2 = copy.deepcopy(d1), copy.deepcopy(d2)
        b1, b2 = copy.deepcopy(d1), copy.deepcopy(d2)
        try:
            want = ("ok", _freeze(spec_update(b1, b2, ow)))
        except KeyError:
            want = ("KeyError",)
        try:
            got = ("ok", _freeze(m.update(a1, a2, overwrite=ow)))
        except KeyError:
            got = ("KeyError",)
        except Exception as ex:
            got = ("EXC", _exc(ex))
        if got != want:
            fails.append(dict(key=f"update-{len(fails)}", d1=repr(d1)[:200], d2=repr(d2)[:200], overwrite=ow, got=repr(got)[:200], want=repr(want)[:200]))
        if _freeze(a2) != _freeze(d2):
            fails.append(dict(key="update-modified-the-patch", d2=repr(d2)[:200]))
    # find / findall / findunique / findkey
    for i in range(N):
        mapfile = i % 2 == 0
        lst = []
        for j in range(rnd.randint(0, 5)):
            it = CIOD(CIOD) if mapfile else {}
            it["name"] = f"n{j}"
            if rnd.random() < 0.7:
                it["group"] = rnd.choice(["road", "roads", "r", "", "x"])
            lst.append(it)
        snap = pickle.dumps(lst)
        val = rnd.choice(["road", "roads", "r", "x", "zz"])
        n += 1
        with_key = [it for it in lst if "group" in it]
        try:
            r1 = m.find(lst, "GROUP" if mapfile else "group", val)
            r2 = m.findall(lst, "group", val)
            r3 = m.findall(lst, "group", ["road", "x"])
            r4 = m.findunique(lst, "group")
        except Exception as ex:
            fails.append(dict(key="find-raises", lst=repr(lst)[:200], error=_exc(ex)))
            continue
        w1 = next((it for it in with_key if it["group"] == val), None)
        if r1 is not w1:
            fails.append(dict(key="find", lst=repr(lst)[:200], value=val))
        if [id(x) for x in r2] != [id(it) for it in with_key if it["group"] == val]:
            fails.append(dict(key="findall", lst=repr(lst)[:200], value=val, got=[x["name"] for x in r2]))
        if [id(x) for x in r3] != [id(it) for it in with_key if it["group"] in ("road", "x")]:
            fails.append(dict(key="findall-list", lst=repr(lst)[:200]))
        if r4 != sorted({it["group"] for it in with_key}):
            fails.append(dict(key="findunique", lst=repr(lst)[:200], got=r4))
        if pickle.dumps(lst) != snap:
            fails.append(dict(key="find-modified-the-items", lst=repr(lst)[:200]))
    return _rec("seam/update-find", f"{N} random (dict, patch, overwrite) triples against the reference merge; {N} random object lists for find/findall/findunique; plain and Mapfile dicts", n, fails)


# ---------------------------------------------------------------------------------------------
# C19: exhaustive minimal documents
# ---------------------------------------------------------------------------------------------

def b_vocabulary(tier, seed):
    m = api()
    from mappyfile.pprint import PrettyPrinter
    pp = PrettyPrinter()
    fails, n = [], 0
    for typ in SC.object_types():
        if typ == "symbolset":
            continue
        keys = gen.simple_keys(typ)
        for key in keys:
            for alt in gen.alternatives(typ, key):
                for position in ("first", "middle", "last"):
                    node = gen.minimal(typ)
                    node.items = [(a, b, c) for (a, b, c) in node.items if a != key]
                    fillers = [k for k in keys if k != key and k not in [a for a, _, _ in node.items] and gen.alternatives(typ, k)][:2]
                    fa = [(k, "simple", gen.alternatives(typ, k)[0]) for k in fillers]
                    item = (key, "simple", alt)
                    base = list(node.items)
                    if position == "first":
                        node.items = [item] + base + fa
                    elif position == "middle":
                        node.items = base + fa[:1] + [item] + fa[1:]
                    else:
                        node.items = base + fa + [item]
                    cell = f"{typ}.{key}:{alt.tag}:{alt.text}:{position}"
                    root, path = gen.wrap_in_parents(node)
                    for ctx, (r, pth) in (("root", (node, [])), ("nested", (root, path))):
                        if ctx == "nested" and not path:
                            continue
                        n += 1
                        text = gen.render(r)
                        try:
                            d = L(text)
                        except Exception as ex:
                            fails.append(dict(key=f"parse:{cell}:{ctx}", error=_exc(ex)[:120]))
                            continue
                        got = gen.find_in(d, pth).get(key) if key in gen.find_in(d, pth) else None
                        if plain(got) != plain(alt.value):
                            fails.append(dict(key=f"value:{cell}:{ctx}", got=repr(got)[:80], want=repr(alt.value)[:80]))
                            continue
                        if pp.get_attribute_properties(typ, key) == {}:
                            fails.append(dict(key=f"schema-lookup:{cell}"))
                        try:
                            back = L(m.dumps(d))
                            if norm(back) != norm(d):
                                fails.append(dict(key=f"print-reload:{cell}:{ctx}", diff=_diff(norm(d), norm(back))))
                        except Exception as ex:
                            fails.append(dict(key=f"print-reload:{cell}:{ctx}", error=_exc(ex)[:120]))
                        if position == "first":
                            msgs = m.validate(d)
                            if msgs:
                                fails.append(dict(key=f"validate:{cell}:{ctx}", messages=[x["error"][:80] for x in msgs][:2]))
    # block-valued and repeatable keywords (child objects, key-value blocks, PROJECTION, POINTS, PATTERN, CONFIG,
    # PROCESSING/FORMATOPTION/COMPFILTER/INCLUDE) in every position of every type that lists them
    for typ in SC.object_types():
        if typ == "symbolset":
            continue
        keys = gen.simple_keys(typ)
        for key, kind in gen.block_keys(typ):
            if kind in ("children", "child") and gen.PLURAL.get(key, key) not in SC.object_types():
                continue
            for position in ("first", "middle", "last"):
                node = gen.minimal(typ)
                fillers = [k for k in keys if k not in [a for a, _, _ in node.items] and gen.alternatives(typ, k)][:2]
                fa = [(k, "simple", gen.alternatives(typ, k)[0]) for k in fillers]
                try:
                    item = (key, kind, gen.sample_payload(typ, key, kind))
                except ValueError:
                    continue
                base = list(node.items)
                node.items = {"first": [item] + base + fa, "middle": base + fa[:1] + [item] + fa[1:], "last": base + fa + [item]}[position]
                cell = f"{typ}.{key}:{kind}:{position}"
                n += 1
                text = gen.render(node)
                want = plain(gen.to_dict(node))
                try:
                    d = m.loads(text, expand_includes=False)
                except Exception as ex:
                    fails.append(dict(key=f"parse-block:{cell}", text=text, error=_exc(ex)[:120]))
                    continue
                if plain(d) != want:
                    fails.append(dict(key=f"value-block:{cell}", text=text, diff=_diff(want, plain(d))))
                    continue
                try:
                    back = m.loads(m.dumps(d), expand_includes=False)
                    if norm(back) != norm(d):
                        fails.append(dict(key=f"print-reload-block:{cell}", diff=_diff(norm(d), norm(back))))
                except Exception as ex:
                    fails.append(dict(key=f"print-reload-block:{cell}", error=_exc(ex)[:120]))
    # create(type, version): prints, re-loads and validates apart from missing required keywords
    import tables
    versions = [None] + (tables.representative_versions() if tier == "thorough" else tables.version_bounds())
    for typ in SC.object_types():
        for v in versions:
            n += 1
            try:
                d = m.create(typ, v)
                text = m.dumps(d)
                back = L(text)
                msgs = [x for x in __import__("mappyfile.validator", fromlist=["x"]).Validator().validate(back, schema_name=typ, version=v) if "is a required property" not in x["error"]]
                if msgs:
                    fails.append(dict(key=f"create:{typ}@{v}", messages=[x["error"][:80] for x in msgs][:2]))
            except Exception as ex:
                fails.append(dict(key=f"create:{typ}@{v}", error=_exc(ex)[:120]))
    r = _rec("seam/vocabulary", "EXHAUSTIVE: every (type, keyword, value alternative) x position {first, middle, last} x {root, nested in its parent chain}: parse, value, schema lookup, print+reload, validate; create(type, version) for every type x version bound", n, fails)
    r["exhaustive"] = True
    return r


# ---------------------------------------------------------------------------------------------
# C20: front ends
# ---------------------------------------------------------------------------------------------

def b_frontends(tier, seed):
    m = api()
    rnd = random.Random(seed)
    fails, n = [], 0
    d0 = tempfile.mkdtemp(prefix="mappyfile-verif-fe-", dir=SCRATCH)
    exe = [os.path.join(os.path.dirname(sys.executable), "python"), "-c", "import sys; sys.path.insert(0, %r); from mappyfile.cli import main; main()" % front.REPO]
    env = dict(os.environ, PYTHONPATH=front.REPO, MAPPYFILE_USE_CYTHON="False")
    try:
        strings = ["plain", "Zürich — 東京", "emoji \U0001F30D astral \U00010348", "tab\there", "üñí©ødé"]
        for i, sval in enumerate(strings * (1 if tier != "thorough" else 6)):
            node = gen.random_node("map", rnd)
            node.add("name", "simple", gen.Alt(f'"{sval}"', sval, "string")) if "name" not in [k for k, _, _ in node.items] else None
            text = gen.render(node)
            try:
                L(text)
            except Exception:
                continue      # a cell the parser is known not to accept (reported by the vocabulary check)
            fn = os.path.join(d0, f"f{i}.map")
            with open(fn, "w", encoding="utf-8") as fh:
                fh.write(text)
            n += 1
            try:
                a = m.open(fn)
                with open(fn, encoding="utf-8") as fh:
                    b = m.load(fh)
                c = m.loads(text)
            except Exception as ex:
                fails.append(dict(key="loaders", error=_exc(ex)))
                continue
            if not (plain(a) == plain(b) == plain(c)):
                fails.append(dict(key="loaders-differ", file=fn))
            out = os.path.join(d0, f"o{i}.map")
            s1 = m.dumps(c)
            buf = io.StringIO()
            m.dump(c, buf)
            m.save(c, out)
            with open(out, encoding="utf-8") as fh:
                s3 = fh.read()
            if not (s1 == buf.getvalue() == s3):
                fails.append(dict(key="writers-differ", file=fn))
            if plain(m.open(out)) != plain(c):
                fails.append(dict(key="save-open-cycle", file=fn))
            if i < (2 if tier != "thorough" else 10):
                # mappyfile format IN OUT == save(open(IN)) with the given options
                out2 = os.path.join(d0, f"cli{i}.map")
                opts = dict(indent=rnd.choice([0, 2, 4]), spacer=rnd.choice([" ", "\\t"]), quote=rnd.choice(['"', "'"]), newlinechar=rnd.choice(["\\n", "\\r\\n"]))
                p = subprocess.run(exe + ["format", fn, out2, "--indent", str(opts["indent"]), "--spacer", opts["spacer"], "--quote", opts["quote"], "--newlinechar", opts["newlinechar"]],
                                   capture_output=True, text=True, env=env)
                n += 1
                import codecs
                dec = {k: (codecs.decode(v, "unicode_escape") if isinstance(v, str) else v) for k, v in opts.items()}
                if "'" in text and dec["quote"] == "'":
                    continue
                want = m.dumps(m.open(fn), **dec)
                if p.returncode != 0 or not os.path.exists(out2):
                    fails.append(dict(key="cli-format-status", rc=p.returncode, err=p.stderr[-200:]))
                else:
                    with open(out2, encoding="utf-8", newline="") as fh:
                        if fh.read() != want:
                            fails.append(dict(key="cli-format-differs", options=opts))
        # one path rewritten in quick succession with contents of the SAME byte length (so neither the size nor, within one
        # second, the time stamp tells the versions apart): every open / include must give the text that is in the file now
        same = os.path.join(d0, "rewritten.map")
        inc = os.path.join(d0, "rewritten_inc.map")
        host = os.path.join(d0, "host.map")
        with open(host, "w", encoding="utf-8") as fh:
            fh.write('MAP\n INCLUDE "rewritten_inc.map"\nEND')
        for rnd_ in range(2 if tier != "thorough" else 6):
            for nm in ("\U0001F600", "\U0001F680", "\U00010348", "\U0001F30D"):
                text = 'MAP\n NAME "%s"\nEND' % nm
                for target in (same, inc):
                    with open(target, "w", encoding="utf-8") as fh:
                        fh.write(text if target is same else ' NAME "%s"' % nm)
                n += 1
                try:
                    a = m.open(same)
                    with open(same, encoding="utf-8") as fh:
                        b = m.load(fh)
                    h = m.open(host)
                except Exception as ex:
                    fails.append(dict(key="rewritten-file", error=_exc(ex)))
                    continue
                if not (plain(a) == plain(b) == plain(m.loads(text))):
                    fails.append(dict(key="open-after-rewrite-differs-from-loads", name=nm, got=plain(a).get("name")))
                if plain(h).get("name") != nm:
                    fails.append(dict(key="include-after-rewrite-is-stale", name=nm, got=plain(h).get("name")))
        # mappyfile validate: one line per message, exit status
        good = os.path.join(d0, "good.map")
        with open(good, "w") as fh:
            fh.write('MAP\n NAME "ok"\nEND')
        bad_parse = os.path.join(d0, "broken.map")
        with open(bad_parse, "w") as fh:
            fh.write("MAP NAME")
        for nerr in ([1, 3] if tier != "thorough" else [1, 2, 255, 256, 257, 300]):
            badf = os.path.join(d0, f"bad{nerr}.map")
            with open(badf, "w") as fh:
                fh.write("MAP\n" + "".join(f' LAYER\n  TYPE ZZ{j}\n END\n' for j in range(nerr)) + "END")
            for files, want_problems in (([good], 0), ([badf], nerr), ([good, badf], nerr), ([bad_parse], 1), ([good, bad_parse, badf], nerr + 1)):
                n += 1
                p = subprocess.run(exe + ["validate"] + files, capture_output=True, text=True, env=env)
                msg_lines = [ln for ln in p.stdout.splitlines() if "ERROR: Invalid value" in ln]
                if len(msg_lines) != (nerr if badf in files else 0):
                    fails.append(dict(key="cli-validate-lines", files=[os.path.basename(f) for f in files], lines=len(msg_lines), want=nerr if badf in files else 0))
                want_status = want_problems if want_problems <= 255 else None
                if (want_problems == 0) != (p.returncode == 0) or (want_status is not None and p.returncode != want_status):
                    fails.append(dict(key="cli-validate-status", files=[os.path.basename(f) for f in files], rc=p.returncode, problems=want_problems))
        # mappyfile schema OUT --version V
        for v in ([None, 7.6] if tier != "thorough" else [None, 5.0, 6.2, 7.6, 8.0, 8.2]):
            outj = os.path.join(d0, f"schema{v}.json")
            n += 1
            p = subprocess.run(exe + ["schema", outj] + (["--version", str(v)] if v else []), capture_output=True, text=True, env=env)
            from mappyfile.validator import Validator
            want = json.dumps(Validator().get_versioned_schema(v), sort_keys=True, indent=4)
            if p.returncode != 0:
                fails.append(dict(key="cli-schema-status", rc=p.returncode, err=p.stderr[-200:]))
            else:
                with open(outj, encoding="utf-8") as fh:
                    if fh.read() != want:
                        fails.append(dict(key="cli-schema-differs", version=v))
    finally:
        shutil.rmtree(d0, ignore_errors=True)
    return _rec("seam/front-ends", "open/load/loads and dump/save/dumps on generated documents with non-ASCII / astral strings; one path (and an included file) rewritten repeatedly with same-length contents; CLI format/validate/schema as real subprocesses", n, fails)


# ---------------------------------------------------------------------------------------------
# helper lemma: is_group
# ---------------------------------------------------------------------------------------------

def _ref_is_group(s):
    """reference: after stripping, s = '(' + t + ')' where, reading t with strings skipped, the depth never drops
    below zero and ends at zero"""
    s = s.strip()
    if len(s) < 2 or s[0] != "(" or s[-1] != ")":
        return False
    depth, i, q = 0, 0, None
    t = s[1:-1]
    while i < len(t):
        c = t[i]
        if q:
            if c == "\\":
                i += 1
            elif c == q:
                q = None
        elif c in "\"'`":
            q = c
        elif c == "(":
            depth += 1
        elif c == ")":
            depth -= 1
            if depth < 0:
                return False
        i += 1
    return True if q is None or True else False


def b_is_group(tier, seed):
    from mappyfile.transformer import MapfileTransformer
    tr = MapfileTransformer()
    fails, n = [], 0
    L_ = 7 if tier != "thorough" else 8
    for k in range(L_ + 1):
        for tup in itertools.product('()"\'a \\', repeat=k):
            s = "".join(tup)
            n += 1
            if tr.is_group(s) != _ref_is_group(s):
                fails.append(dict(key=f"is_group:{s!r}", got=tr.is_group(s), want=_ref_is_group(s)))
                if len(fails) > 20:
                    return _rec("lemma/is_group", "", n, fails)
    return _rec("lemma/is_group", f"all strings over {{ ( ) \" ' a blank backslash }} up to length {L_} against a reference bracket matcher (exhaustive)", n, fails)
