"""Bounded stand-ins (level B): the seams that pass through Lark / jsonschema / the OS, checked through the real
public API over the shipped corpus, schema-generated documents (complete over the vocabulary, one representative
value per class) and seeded random documents.  Every function returns a record
dict(name, bound, evaluations, failures=[dict(key=..., ...)]); nothing here is ever counted as proved."""
from __future__ import annotations
import glob
import io
import itertools
import os
import random
import re
import time

from pyvc import front
from spec import schemas as SC
from spec.render import leaves
from bounded import gen


def corpus_files():
    base = os.path.join(front.REPO, "tests")
    fs = sorted(glob.glob(os.path.join(base, "sample_maps", "*.map"))) + sorted(glob.glob(os.path.join(base, "mapfiles", "*.map")))
    return fs


def api():
    import mappyfile
    return mappyfile


_PARSERS = {}
_COUNT = [0]


_INC = re.compile(r"(?im)^\s*include")


def L(text, expand_includes=None, include_position=False, include_comments=False, fn=None):
    """loads() with the Parser reused across calls (building the Lark grammar dominates the run time of loads);
    every 40th call goes through the real mappyfile.loads so that the public entry point stays in the loop"""
    from mappyfile.parser import Parser
    from mappyfile.transformer import MapfileToDict
    if expand_includes is None:
        # the API default is to expand; texts that carry INCLUDE lines of files we do not have are kept as data
        expand_includes = not _INC.search(text)
    _COUNT[0] += 1
    if _COUNT[0] % 40 == 0 and fn is None:
        return api().loads(text, expand_includes=expand_includes, include_position=include_position, include_comments=include_comments)
    key = (expand_includes, include_comments)
    if key not in _PARSERS:
        _PARSERS[key] = Parser(expand_includes=expand_includes, include_comments=include_comments)
    tree = _PARSERS[key].parse(text, fn)
    return MapfileToDict(include_position=include_position, include_comments=include_comments).transform(tree)


def load_corpus(limit=None, **kw):
    m = api()
    out = []
    for f in corpus_files()[:limit]:
        try:
            with open(f, encoding="utf-8") as fh:
                out.append((f, L(fh.read(), expand_includes=False, **kw)))
        except Exception as ex:       # files the parser rejects are outside "accepted by loads"
            out.append((f, ex))
    return out


def plain(x):
    """Mapfile dict -> plain nested dict/list/scalars (tuples as lists), hidden keys other than __type__ dropped"""
    if isinstance(x, dict):
        return {k: plain(v) for k, v in x.items() if not (k.startswith("__") and k.endswith("__") and k != "__type__")}
    if isinstance(x, (list, tuple)):
        return [plain(v) for v in x]
    return x


def _slot_info(typ, key):
    try:
        s = SC.slot_schema(typ, key)
    except Exception:
        return set(), False
    lv = leaves(s)
    enums = {e for l in lv for e in l.get("enum", []) if isinstance(e, str)}
    has_num = any(l.get("type") in ("number", "integer") or any(not isinstance(e, str) for e in l.get("enum", [])) for l in lv)
    has_str = any(l.get("type") == "string" for l in lv)
    return enums, (has_str and not has_num)


def norm(x, typ=None):
    """the normalisations C01 allows: case of bare enumerated values; a number becoming the equal numeric string
    where the schema types the keyword as a string"""
    if isinstance(x, dict):
        t = x.get("__type__", typ)
        out = {}
        for k, v in x.items():
            if k.startswith("__") and k.endswith("__") and k != "__type__":
                continue
            if isinstance(v, (dict, list, tuple)):
                out[k] = norm(v, t if not isinstance(v, dict) else None)
                continue
            enums, stringy = _slot_info(t, k) if isinstance(t, str) and t in SC.object_types() else (set(), False)
            if isinstance(v, str) and v.lower() in enums:
                v = v.lower()
            if stringy and isinstance(v, (int, float)) and not isinstance(v, bool):
                v = str(v)
            if stringy and isinstance(v, str):
                try:
                    v = str(int(v)) if re.fullmatch(r"[-+]?\d+", v) else (str(float(v)) if re.fullmatch(r"[-+]?\d*\.\d+", v) else v)
                except ValueError:
                    pass
            out[k] = v
        return out
    if isinstance(x, (list, tuple)):
        return [norm(v, typ) for v in x]
    return x


def generated_documents(tier, seed, n_random=None):
    """(key, text, node, root, path): every slot x alternative once + random documents"""
    docs = []
    for typ, key, alt in gen.all_slots():
        node = gen.minimal(typ)
        node.items = [(k, kd, p) for (k, kd, p) in node.items if k != key]
        node.add(key, "simple", alt)
        root, path = gen.wrap_in_parents(node)
        docs.append((f"{typ}.{key}:{alt.tag}:{alt.text}", root, path))
    docs.extend(gen.block_documents())
    rnd = random.Random(seed)
    n_random = n_random if n_random is not None else (40 if tier != "thorough" else 600)
    for i in range(n_random):
        typ = rnd.choice(["map", "map", "layer", "class", "style", "label", "web", "legend", "scalebar", "symbol", "outputformat"])
        node = gen.random_node(typ, rnd)
        docs.append((f"random#{seed}.{i}:{typ}", node, []))
    return docs


def _rec(name, bound, evaluations, failures):
    import inspect
    return dict(name=name, bound=bound, evaluations=evaluations, failures=failures[:50], n_failures=len(failures),
                seam_func=inspect.stack()[1].function)       # lets `check.py Cxx --replay FILE` re-run the seam on the current tree


def _exc(ex):
    return f"{type(ex).__name__}: {str(ex)[:160]}"


# ---------------------------------------------------------------------------------------------
# C02 seam: text -> dict through the real loads equals the intended structure
# ---------------------------------------------------------------------------------------------

def b_text_to_dict(tier, seed):
    m = api()
    fails, n = [], 0
    for key, root, path in generated_documents(tier, seed):
        text = gen.render(root)
        want = gen.to_dict(root)
        n += 1
        try:
            got = plain(L(text))
        except Exception as ex:
            fails.append(dict(key=key, text=text, error=_exc(ex)))
            continue
        if got != plain(want):
            fails.append(dict(key=key, text=text, got=repr(got)[:300], want=repr(plain(want))[:300]))
    return _rec("seam/text-to-dict", "every slot x value alternative once + seeded random documents (depth <= 5)", n, fails)


# ---------------------------------------------------------------------------------------------
# C01 / C04 / C06 seams: round trip, idempotence, option independence
# ---------------------------------------------------------------------------------------------

def _docs_as_dicts(tier, seed, corpus_limit=None):
    m = api()
    out = []
    for key, root, path in generated_documents(tier, seed):
        try:
            out.append((key, L(gen.render(root))))
        except Exception:
            continue     # reported by the text-to-dict seam
    for i, text in enumerate(gen.CROSS_TYPE_TEXTS):
        out.append((f"cross-type:{i}", L(text)))       # one keyword in two object kinds with different schemas
    for f, d in load_corpus(corpus_limit):
        if not isinstance(d, Exception):
            out.append(("corpus:" + os.path.basename(f), d))
    return out


def _has_quote_inside(d, q):
    def walk(x):
        if isinstance(x, dict):
            return any(walk(v) for v in x.values())
        if isinstance(x, (list, tuple)):
            return any(walk(v) for v in x)
        return isinstance(x, str) and q in x
    return walk(d)


def b_roundtrip(tier, seed):
    m = api()
    fails, n = [], 0
    for key, d in _docs_as_dicts(tier, seed, None if tier == "thorough" else 150):
        if _has_quote_inside(d, '"'):
            continue
        n += 1
        try:
            text = m.dumps(d)
            d2 = L(text)
        except Exception as ex:
            fails.append(dict(key=key, error=_exc(ex)))
            continue
        if norm(d) != norm(d2):
            fails.append(dict(key=key, text=text[:400], diff=_diff(norm(d), norm(d2))))
    return _rec("seam/parse-print-parse", "generated documents (complete over slots) + corpus files without the output quote inside strings", n, fails)


def _diff(a, b, path=""):
    if type(a) is not type(b):
        return f"{path}: {a!r} vs {b!r}"[:300]
    if isinstance(a, dict):
        if list(a) != list(b):
            return f"{path}: keys {list(a)} vs {list(b)}"[:300]
        for k in a:
            d = _diff(a[k], b[k], path + "/" + k)
            if d:
                return d
        return ""
    if isinstance(a, list):
        if len(a) != len(b):
            return f"{path}: len {len(a)} vs {len(b)}"
        for i, (x, y) in enumerate(zip(a, b)):
            d = _diff(x, y, f"{path}[{i}]")
            if d:
                return d
        return ""
    return "" if a == b else f"{path}: {a!r} vs {b!r}"[:300]


OPTION_SPACE = dict(indent=list(range(0, 9)), spacer=[" ", "\t"], quote=['"', "'"], newlinechar=["\n", "\r\n", " "],
                    end_comment=[False, True], align_values=[False, True], separate_complex_types=[False, True])


def option_sets(tier, seed, k):
    keys = list(OPTION_SPACE)
    full = list(itertools.product(*[OPTION_SPACE[x] for x in keys]))
    rnd = random.Random(seed)
    if tier == "thorough":
        chosen = full
    else:
        chosen = rnd.sample(full, k)
        # always include the corners
        chosen += [tuple(OPTION_SPACE[x][0] for x in keys), tuple(OPTION_SPACE[x][-1] for x in keys)]
    return [dict(zip(keys, c)) for c in chosen]


def b_options(tier, seed):
    m = api()
    import copy
    fails, n = [], 0
    docs = _docs_as_dicts(tier, seed, 40 if tier != "thorough" else 120)
    rnd = random.Random(seed)
    if tier != "thorough":
        docs = rnd.sample(docs, min(len(docs), 120))
    else:
        docs = rnd.sample(docs, min(len(docs), 60))
    for key, d in docs:
        if _has_quote_inside(d, '"') or _has_quote_inside(d, "'"):
            continue
        try:
            base = norm(L(m.dumps(d)))
        except Exception:
            continue
        for o in option_sets(tier, seed, 6):
            if o["newlinechar"] == " " and o["end_comment"]:
                continue      # comments need a line break
            n += 1
            try:
                dd = copy.deepcopy(d)
                got = norm(L(m.dumps(dd, **o)))
            except Exception as ex:
                fails.append(dict(key=key, options=o, error=_exc(ex)))
                continue
            want = base
            if o["separate_complex_types"]:
                got, want = _unordered(got), _unordered(base)
            if got != want:
                fails.append(dict(key=key, options=o, diff=_diff(want, got)))
    return _rec("seam/options-do-not-change-content", "documents x formatter option sets (quick: 8 per document sampled by VERIF_SEED; thorough: the full 1728-element product for 60 documents)", n, fails)


def _unordered(x):
    if isinstance(x, dict):
        return {k: _unordered(x[k]) for k in sorted(x)}
    if isinstance(x, list):
        return [_unordered(v) for v in x]
    return x


def _has_unescaped_quote(d, q):
    def walk(x):
        if isinstance(x, dict):
            return any(walk(v) for v in x.values())
        if isinstance(x, (list, tuple)):
            return any(walk(v) for v in x)
        return isinstance(x, str) and re.search(r"(?<!\\)" + re.escape(q), x) is not None
    return walk(d)


def b_idempotent(tier, seed):
    m = api()
    fails, n = [], 0
    docs = _docs_as_dicts(tier, seed, 150 if tier != "thorough" else None)
    for key, d in docs:
        if _has_unescaped_quote(d, '"'):
            continue
        for o in ([{}] + option_sets(tier, seed, 1)[:2 if tier != "thorough" else 6]):
            if _has_unescaped_quote(d, o.get("quote", '"')) or (o.get("newlinechar") == " "):
                continue
            n += 1
            try:
                import copy
                t1 = m.dumps(copy.deepcopy(d), **o)
                d1 = L(t1)
                t2 = m.dumps(d1, **o)
                if t1 != t2:
                    fails.append(dict(key=key, options=o, first=_first_line_diff(t1, t2)))
                    continue
                if plain(L(t2)) != plain(d1):
                    fails.append(dict(key=key, options=o, error="loads(t) != loads(dumps(loads(t)))"))
                if m.dumps(copy.deepcopy(d), **o) != t1:
                    fails.append(dict(key=key, options=o, error="same dictionary, same options, different text"))
            except Exception as ex:
                fails.append(dict(key=key, options=o, error=_exc(ex)))
    return _rec("seam/formatting-is-idempotent", "generated + corpus documents after one formatting pass, default options and sampled option sets", n, fails)


def _first_line_diff(a, b):
    for i, (x, y) in enumerate(zip(a.splitlines(), b.splitlines())):
        if x != y:
            return f"line {i + 1}: {x!r} vs {y!r}"
    return f"lengths {len(a)} vs {len(b)}"


def b_escape_idempotent(tier, seed):
    from mappyfile.quoter import Quoter
    n, fails = 0, []
    L = 7 if tier == "thorough" else 6
    for q in ('"', "'"):
        qt = Quoter(q)
        for k in range(L + 1):
            for tup in itertools.product("\\" + q + "a ", repeat=k):
                s = q + "".join(tup) + q
                n += 1
                e1 = qt.escape_quotes(s)
                if qt.escape_quotes(e1) != e1:
                    fails.append(dict(key=f"{q}:{s!r}", once=e1, twice=qt.escape_quotes(e1)))
    return _rec("lemma/escape_quotes-idempotent", f"all strings over {{backslash, quote, a, blank}} up to length {L}, both quotes (exhaustive)", n, fails)


# ---------------------------------------------------------------------------------------------
# C05 seam: surface renderings
# ---------------------------------------------------------------------------------------------

# comment spellings between tokens (C05): stars and slashes inside, empty, banner, multi-line, comment openers inside # comments
C_COMMENT_FORMS = ["/* c */", "/**/", "/***/", "/****/", "/** section **/", "/* note **/", "/*** banner ***/", "/* a * b / c */",
                   "/* two\n   lines */", "/*\n * boxed\n **/", "/* # not a hash comment */", "/* 'quoted' \"text\" */"]
HASH_COMMENT_FORMS = ["# comment", "#", "## double", "# has /* an opener", "# has */ a closer", "# 'quote", "# END", "#comment without blank"]


class RandomStyle(gen.Style):
    def __init__(self, rnd):
        self.rnd = rnd

    def kw(self, s):
        return "".join(c.upper() if self.rnd.random() < 0.5 else c.lower() for c in s)

    def sep(self):
        r = self.rnd.random()
        if r < 0.5:
            return " " * self.rnd.randint(1, 3)
        if r < 0.65:
            return "\t"
        if r < 0.75:
            return " \f "
        if r < 0.85:
            return " " + self.rnd.choice(C_COMMENT_FORMS) + " "
        if r < 0.93:
            return " " + self.rnd.choice(HASH_COMMENT_FORMS) + "\n  "
        return "\r\n\t"

    def quote(self, s):
        if "'" in s or '"' in s:
            return f'"{s}"'
        return f"'{s}'" if self.rnd.random() < 0.5 else f'"{s}"'

    def value_text(self, alt):
        t = alt.text
        if alt.tag in ("string", "char", "hexcolor", "pattern-string") and t.startswith('"') and "'" not in t and self.rnd.random() < 0.5:
            return "'" + t[1:-1] + "'"
        if alt.tag == "enum":
            return self.kw(t)
        if alt.tag.startswith("list-"):
            return self.sep().join(t.split(" ")) if "#" not in t else t
        return t


def _ci(x):
    """enumerated bare words keep their source spelling: compare them case-insensitively"""
    return norm(x)


def b_surface(tier, seed):
    m = api()
    fails, n = [], 0
    rnd = random.Random(seed)
    reps = 3 if tier != "thorough" else 20
    for key, root, path in generated_documents(tier, seed):
        try:
            base = L(gen.render(root))
        except Exception:
            continue
        for r in range(reps):
            st = RandomStyle(random.Random(rnd.random()))
            text = gen.render(root, style=st).replace("\n", "\r\n" if r % 2 else "\n")
            n += 1
            try:
                got = L(text)
            except Exception as ex:
                fails.append(dict(key=key, text=text[:400], error=_exc(ex)))
                continue
            if _ci(plain(got)) != _ci(plain(base)):
                fails.append(dict(key=key, text=text[:400], diff=_diff(_ci(plain(base)), _ci(plain(got)))))
    # a bare-word string value may be left unquoted
    for typ, kw in (("layer", "NAME"), ("layer", "GROUP"), ("class", "NAME"), ("map", "NAME")):
        n += 1
        a = L(f'{typ.upper()} {kw} "word_1" END')
        b = L(f'{typ.upper()} {kw} word_1 END')
        if plain(a) != plain(b):
            fails.append(dict(key=f"bare-word:{typ}.{kw}", a=repr(plain(a)), b=repr(plain(b))))
    # corpus: perturb whitespace between tokens (line ends -> CRLF, indentation -> tabs, trailing comments)
    for f, d in load_corpus(60 if tier != "thorough" else None):
        if isinstance(d, Exception):
            continue
        with open(f, encoding="utf-8") as fh:
            text = fh.read()
        if '"' in text and "\n" in text and any(ln.count('"') % 2 for ln in text.splitlines()):
            continue     # multi-line strings: line-level perturbation would change a value
        if "/*" in text or "'" in text:
            continue
        pert = "\r\n".join(("\t" + ln.strip() + ("  # x" if (i % 7 == 3 and ln.strip() and '"' not in ln and "#" not in ln and "[" not in ln) else "")) for i, ln in enumerate(text.splitlines()))
        n += 1
        try:
            got = L(pert)
        except Exception as ex:
            fails.append(dict(key="corpus:" + os.path.basename(f), error=_exc(ex)))
            continue
        if plain(got) != plain(d):
            fails.append(dict(key="corpus:" + os.path.basename(f), diff=_diff(plain(d), plain(got))))
    return _rec("seam/surface-syntax", f"generated documents x {reps} random renderings (case, separators, comments, quote style, LF/CRLF) + whitespace-perturbed corpus files", n, fails)


# ---------------------------------------------------------------------------------------------
# numbers: every way of writing an int / float, in every numeric position (C01, C02, C03, C04)
# ---------------------------------------------------------------------------------------------

NUMBER_LEXEMES = ["0", "7", "-7", "+7", "007", "0.5", "-0.5", "+0.5", ".5", "-.5", "5.", "00.5", "1e6", "1E6", "1e-05", "1e+16", "2.5e-05",
                  "-1.5E-3", "123456789.123456789", "-73.98765432", "0.1234567", "1.0000001", "1e22", "1.5e300", "5e-324", "0.00001",
                  "10000000000000000.0", "0.30000000000000004", "1234567.25", "1.2345e-07"]
NUMBER_CONTEXTS = {
    "scalar": ("LAYER TOLERANCE {} END", lambda d: d["tolerance"]),
    "scalar-float-slot": ("LAYER MAXSCALEDENOM {} END", lambda d: d["maxscaledenom"]),
    "list-first": ("MAP EXTENT {} 1 2 3 END", lambda d: d["extent"][0]),
    "list-last": ("MAP EXTENT 1 2 3 {} END", lambda d: d["extent"][3]),
    "points": ("FEATURE POINTS {} 2 3 {} END END", lambda d: d["points"][0][0]),
    "pattern": ("STYLE PATTERN 1 {} END END", lambda d: d["pattern"][0][1]),
    "beside-binding": ("STYLE OFFSET {} [y] END", lambda d: d["offset"][0]),
}


def b_numbers(tier, seed):
    m = api()
    fails, n = [], 0
    num_re = re.compile(r"(?<![\w.\"'\[])[-+]?(?:\d+\.?\d*|\.\d+)(?:[eE][-+]?\d+)?(?![\w.\"'\]])")
    for lex in NUMBER_LEXEMES:
        want = float(lex) if any(c in lex for c in ".eE") else int(lex)
        for cname, (tmpl, get) in NUMBER_CONTEXTS.items():
            text = tmpl.format(lex, lex) if tmpl.count("{}") == 2 else tmpl.format(lex)
            key = f"{cname}:{lex}"
            n += 1
            try:
                d = L(text)
                v = get(d)
            except Exception as ex:
                fails.append(dict(key="parse:" + key, text=text, error=_exc(ex)))
                continue
            if type(v) is not type(want) or v != want:
                fails.append(dict(key="value:" + key, text=text, got=repr(v), want=repr(want)))
                continue
            # the printed text says the same number (an independent reading of the number tokens of the output)
            out = m.dumps(d)
            printed = [float(x) if any(c in x for c in ".eE") else int(x) for x in num_re.findall(out)]
            if not any(type(p) is type(want) and p == want for p in printed):
                fails.append(dict(key="printed:" + key, text=text, out=out, want=repr(want)))
                continue
            # the output is accepted and gives the same value; a second formatting pass changes nothing
            try:
                d2 = L(out)
                v2 = get(d2)
                if type(v2) is not type(v) or v2 != v or plain(d2) != plain(d):
                    fails.append(dict(key="round-trip:" + key, text=text, out=out, got=repr(v2)))
                elif m.dumps(d2) != out:
                    fails.append(dict(key="idempotent:" + key, text=text, out=out))
            except Exception as ex:
                fails.append(dict(key="round-trip:" + key, text=text, out=out, error=_exc(ex)))
    return _rec("seam/numbers", f"{len(NUMBER_LEXEMES)} spellings of ints and floats (signs, leading/trailing dot, exponents, 17 significant digits, values whose repr is exponent notation) x {len(NUMBER_CONTEXTS)} numeric positions: value and type, printed number, reload, second pass", n, fails)


# ---------------------------------------------------------------------------------------------
# C03: an independent reader of the printed text (not the Lark grammar, not the printer's helpers)
# ---------------------------------------------------------------------------------------------

_TOK = re.compile(r'"(?:\\.|[^"\\])*"i?|\'(?:\\.|[^\'\\])*\'i?|\[[^\]]*\]|\S+')


def _scalar_ok(tok, e):
    if isinstance(e, bool):
        return tok.upper() == ("TRUE" if e else "FALSE")
    if isinstance(e, (int, float)):
        body = tok[1:-1] if len(tok) > 1 and tok[0] in "\"'" and tok[-1] == tok[0] else None
        if body is not None:
            return body == str(e)           # a number under a string-typed keyword (NAME 7 -> "7")
        try:
            is_f = any(c in tok for c in ".eE") and not tok.lower().startswith("0x")
            v = float(tok) if is_f else int(tok)
        except ValueError:
            return False
        return v == e and isinstance(e, float) == is_f
    if isinstance(e, str):
        if tok == e or tok.lower() == e.lower():
            return True
        return len(tok) > 1 and tok[0] in "\"'" and tok[-1] == tok[0] and tok[1:-1] == e
    return False


def expected_events(d):
    """what the text must contain, straight from the dictionary (statement of C03): objects, keywords and values in order"""
    ev = [("open", str(d.get("__type__", "?")).upper())]
    if str(d.get("__type__", "")).lower() in gen.KEYVALUE:
        # a key-value block as the root of a partial Mapfile
        for ck, cv in d.items():
            if not (ck.startswith("__") and ck.endswith("__")):
                ev.append(("pair", ck, cv))
        ev.append(("close",))
        return ev
    for k, v in d.items():
        if k.startswith("__") and k.endswith("__"):
            continue
        K = k.upper()
        if k == "config" and isinstance(v, dict):
            for ck, cv in v.items():
                if not (ck.startswith("__") and ck.endswith("__")):
                    ev.append(("attr", "CONFIG", [ck, cv]))
        elif k in gen.KEYVALUE and isinstance(v, dict):
            ev.append(("open", K))
            for ck, cv in v.items():
                if not (ck.startswith("__") and ck.endswith("__")):
                    ev.append(("pair", ck, cv))
            ev.append(("close",))
        elif k == "projection" and isinstance(v, (list, tuple)):
            ev.append(("open", K))
            for s in v:
                ev.append(("item", [s]))
            ev.append(("close",))
        elif k in ("points", "pattern") and isinstance(v, (list, tuple)):
            blocks = v if (v and isinstance(v[0], (list, tuple)) and v[0] and isinstance(v[0][0], (list, tuple))) else [v]
            for b in blocks:
                ev.append(("open", K))
                for pr in b:
                    ev.append(("item", list(pr)))
                ev.append(("close",))
        elif isinstance(v, dict) and "__type__" in v:
            ev += expected_events(v)
        elif isinstance(v, (list, tuple)) and v and all(isinstance(x, dict) for x in v):
            for x in v:
                ev += expected_events(x)
        elif k in gen.REPEATED and isinstance(v, (list, tuple)):
            for x in v:
                ev.append(("attr", K, [x]))
        elif isinstance(v, (list, tuple)):
            if v or k not in gen.PLURAL:
                ev.append(("attr", K, list(v)))
        else:
            ev.append(("attr", K, [v]))
    ev.append(("close",))
    return ev


def read_events(text):
    """events of the printed text, one line at a time (the layout of C16: one opener / keyword line / END per line)"""
    ev = []
    stack = []
    for ln in text.split("\n"):
        t = ln.strip()
        if not t:
            continue
        toks = _TOK.findall(t)
        head = toks[0]
        inside = stack[-1] if stack else None
        if head.upper() == "END" and len(toks) == 1:
            ev.append(("close",))
            stack.pop()
        elif inside in ("kv",):
            ev.append(("pairline", t, toks))
        elif inside in ("items",):
            ev.append(("itemline", t, toks))
        elif len(toks) == 1 and re.fullmatch(r"[A-Za-z_]+", head):
            ev.append(("open", head.upper()))
            kind = "kv" if head.lower() in gen.KEYVALUE else "items" if head.lower() in ("projection", "points", "pattern") else "obj"
            stack.append(kind)
        else:
            ev.append(("attrline", head.upper(), t[len(head):].strip(), toks[1:]))
    return ev


def _values_ok(rest, toks, vals):
    if len(vals) == 1 and isinstance(vals[0], str) and (rest == vals[0] or " ".join(rest.split()) == " ".join(vals[0].split())):
        return True                      # written verbatim (expressions, bindings, regular expressions, list expressions)
    if len(vals) == 1 and _scalar_ok(rest, vals[0]):
        return True
    return len(toks) == len(vals) and all(_scalar_ok(t, e) for t, e in zip(toks, vals))


def compare_events(want, got):
    for i, w in enumerate(want):
        if i >= len(got):
            return f"text ends early: expected {w!r}"
        g = got[i]
        if w[0] == "open":
            ok = g[0] == "open" and g[1] == w[1]
        elif w[0] == "close":
            ok = g[0] == "close"
        elif w[0] == "attr":
            if w[1] == "CONFIG" and g[0] == "attrline" and len(g[3]) == 2:
                # CONFIG keys are case-insensitive names (stored lower-case, written upper-case)
                ok = g[1] == "CONFIG" and g[3][0][1:-1].lower() == str(w[2][0]).lower() and _scalar_ok(g[3][1], w[2][1])
            else:
                ok = g[0] == "attrline" and g[1] == w[1] and _values_ok(g[2], g[3], w[2])
        elif w[0] == "pair":
            ok = g[0] == "pairline" and len(g[2]) == 2 and _scalar_ok(g[2][0], w[1]) and _scalar_ok(g[2][1], w[2] if isinstance(w[2], (str, bool)) else str(w[2]))
        else:
            ok = g[0] == "itemline" and _values_ok(g[1], g[2], w[1])
        if not ok:
            return f"event {i}: dictionary says {w!r}, text says {g!r}"
    if len(got) > len(want):
        return f"text has extra content: {got[len(want)]!r}"
    return None


def b_reader(tier, seed):
    m = api()
    fails, n = [], 0
    docs = _docs_as_dicts(tier, seed, 60 if tier != "thorough" else None)
    for t in SC.object_types():
        try:
            docs.append((f"create:{t}", m.create(t, 7.6)))
        except Exception:
            pass
    # dictionaries built / edited through the dict API, with numbers that need all their digits
    from mappyfile.ordereddict import CaseInsensitiveOrderedDict as CIOD
    d = L("MAP NAME 'edited' LAYER NAME 'l' TYPE POINT FEATURE POINTS 1 2 END END END END")
    d["layers"][0]["features"][0]["points"] = [(-73.98765432, 40.74881234), (2.29448271, 48.85837009), (1234567.25, 1.2345e-07)]
    d["layers"][0]["classes"].append(CIOD(CIOD, [("__type__", "class"), ("name", "added"), ("maxscaledenom", 0.30000000000000004)]))
    d["layers"][0]["classes"][0]["styles"].append({"__type__": "style", "pattern": [(10.0, 2.5), (1.0000001, 3)], "width": 0.1234567891})
    d["extent"] = [-180.00000001, -90, 180, 90.5]
    docs.append(("edited:precise-numbers", d))
    def strings(x):
        if isinstance(x, dict):
            for v in x.values():
                yield from strings(v)
        elif isinstance(x, (list, tuple)):
            for v in x:
                yield from strings(v)
        elif isinstance(x, str):
            yield x
    for key, d in docs:
        if _has_unescaped_quote(d, '"') or any("\n" in v or "\r" in v for v in strings(d)):
            continue          # the reader works line by line: values that contain line breaks are left to the round-trip seam
        n += 1
        try:
            text = m.dumps(d)
        except Exception as ex:
            fails.append(dict(key="dumps:" + key, error=_exc(ex)))
            continue
        why = compare_events(expected_events(d), read_events(text))
        if why:
            fails.append(dict(key="reader:" + key, why=why[:400], text=text[:300]))
    return _rec("seam/independent-reader", "the printed text of generated, corpus, created and dict-API-edited dictionaries read line by line by a reader written for this seam (no Lark, no printer helper): same objects, keywords and values, in order; numbers with all their digits", n, fails)
