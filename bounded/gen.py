"""Schema-driven generator of Mapfile documents with their *intended* dictionaries, and an independent renderer.

For every (object type, keyword) slot of the expanded schemas it lists one representative per value alternative
the schema admits, written the way MapServer writes that alternative (bare enum word, quoted string, number,
binding, expression, regex, RGB triple, ...), together with the value the documented text-to-dict contract
(property C02) gives it.  Nothing here imports the transformer or the printer.
"""
from __future__ import annotations
import random
from collections import OrderedDict

from spec import schemas as SC
from spec.render import leaves, BIND_PAT, EXPR_PAT, REGEX_PAT

KEYVALUE = ("metadata", "validation", "values", "connectionoptions")
REPEATED = ("processing", "formatoption", "include", "compfilter")
PLURAL = {"layers": "layer", "classes": "class", "styles": "style", "symbols": "symbol", "labels": "label",
          "outputformats": "outputformat", "features": "feature", "scaletokens": "scaletoken",
          "composites": "composite", "joins": "join"}
SINGLETON_CHILDREN = ("web", "legend", "querymap", "reference", "scalebar", "cluster", "grid", "leader")


class Alt:
    """one representative of a value alternative: source text, intended value, a tag"""
    def __init__(self, text, value, tag, lines=None):
        self.text, self.value, self.tag, self.lines = text, value, tag, lines

    def __repr__(self):
        return f"Alt({self.tag}: {self.text!r} -> {self.value!r})"


def _num_in(l, integer):
    lo = l.get("minimum", l.get("exclusiveMinimum"))
    hi = l.get("maximum", l.get("exclusiveMaximum"))
    v = 7
    if lo is not None and v <= lo:
        v = lo + 1
    if hi is not None and v >= hi:
        v = hi - 1 if (lo is None or hi - 1 > lo) else hi
    if lo is not None and "exclusiveMinimum" not in l and v < lo:
        v = lo
    if integer:
        return int(v)
    return float(v) + (0.5 if (hi is None or v + 0.5 < hi) else 0.0)


def _string_for_pattern(p):
    if p == BIND_PAT:
        return "[item]", "[item]", "binding"
    if p == EXPR_PAT:
        return "([a] = 1)", "( [a] = 1 )", "expression"
    if p == REGEX_PAT:
        return "/^ab.*$/", "/^ab.*$/", "regex"
    if p.startswith("^#"):
        return '"#ff00aa"', "#ff00aa", "hexcolor"
    if p == "^rectangle$":
        return '"rectangle"', "rectangle", "pattern-string"
    if p == "^ellipse$":
        return '"ellipse"', "ellipse", "pattern-string"
    if p.startswith("^&#"):
        return '"&#10140;"', "&#10140;", "pattern-string"
    return None


def alternatives(typ, attr):
    """representatives for the keyword's schema alternatives (simple keywords only)"""
    s = SC.slot_schema(typ, attr)
    out = []
    seen = set()

    def add(a):
        if (a.tag, a.text) not in seen:
            seen.add((a.tag, a.text))
            out.append(a)
    for l in leaves(s):
        t = l.get("type")
        if "enum" in l:
            for e in l["enum"]:
                if isinstance(e, str):
                    if attr == "compop" or e == "end":
                        add(Alt(f'"{e}"', e, "enum-quoted"))
                    else:
                        add(Alt(e.upper(), e.upper(), "enum"))
                elif isinstance(e, bool):
                    add(Alt("TRUE" if e else "FALSE", e, "bool"))
                else:
                    add(Alt(str(e), e, "enum-number"))
            continue
        if t == "string":
            p = l.get("pattern")
            if p:
                r = _string_for_pattern(p)
                if r:
                    add(Alt(r[0], r[1], r[2]))
            elif l.get("maxLength") == 1:
                add(Alt('"x"', "x", "char"))
            else:
                add(Alt('"free text 1"', "free text 1", "string"))
        elif t == "integer":
            v = _num_in(l, True)
            add(Alt(str(v), v, "int"))
        elif t == "number":
            v = _num_in(l, False)
            add(Alt(repr(v), v, "float"))
            vi = _num_in(l, True)
            add(Alt(str(vi), vi, "int"))
        elif t == "boolean":
            add(Alt("TRUE", True, "bool"))
            add(Alt("FALSE", False, "bool"))
        elif t == "array":
            it = l.get("items")
            n = l.get("minItems") or l.get("maxItems") or 2
            its = it if isinstance(it, list) else [it] * n
            its = (its + its[-1:] * n)[:n]
            texts, vals, kinds = [], [], []
            ok = True
            for i, isch in enumerate(its):
                ll = leaves(isch or {})
                if not ll:
                    ok = False
                    break
                l0 = ll[0]
                if l0.get("type") in ("number", "integer"):
                    v = _num_in(l0, l0.get("type") == "integer" or n in (3, 6))
                    if n == 3 or n == 6:
                        v = min(max(int(v), 0), 255)
                    texts.append(repr(v) if isinstance(v, float) else str(v))
                    vals.append(v)
                    kinds.append("n")
                elif l0.get("type") == "string":
                    p = l0.get("pattern")
                    if p == BIND_PAT:
                        texts.append(f"[item{i}]")
                        vals.append(f"[item{i}]")
                        kinds.append("b")
                    else:
                        texts.append('"#ff0000"' if n == 2 and attr == "colorrange" else f'"s{i}"')
                        vals.append("#ff0000" if n == 2 and attr == "colorrange" else f"s{i}")
                        kinds.append("s")
                else:
                    ok = False
                    break
            if ok and set(kinds) <= {"n", "b"} or (ok and attr == "colorrange"):
                add(Alt(" ".join(texts), vals, "list-" + "".join(kinds)))
    return out


def block_keys(typ):
    """(keyword, kind) for the non-simple keywords of the type: child objects, key-value blocks, ..."""
    out = []
    props = SC.expanded(typ)["properties"]
    for k in props:
        if k.startswith("__"):
            continue
        if k in KEYVALUE:
            out.append((k, "keyvalue"))
        elif k in REPEATED:
            out.append((k, "repeated"))
        elif k in PLURAL:
            out.append((k, "children"))
        elif k == "projection":
            out.append((k, "projection"))
        elif k == "points":
            out.append((k, "points"))
        elif k == "pattern":
            out.append((k, "pattern"))
        elif k == "config":
            out.append((k, "config"))
        elif k in SINGLETON_CHILDREN or (isinstance(props[k], dict) and props[k].get("type") == "object") \
                or (isinstance(props[k], dict) and "allOf" in props[k] and all(isinstance(a, dict) and a.get("type") == "object" for a in props[k]["allOf"])):
            out.append((k, "child"))
    return out


def simple_keys(typ):
    return [a for (t, a) in SC.value_slots() if t == typ]


# ---------------------------------------------------------------------------------------------
# documents: intended dictionary + independent rendering
# ---------------------------------------------------------------------------------------------

class Node:
    """intended structure of a block: type and ordered items (keyword, kind, payload)"""

    def __init__(self, typ):
        self.typ = typ
        self.items = []

    def add(self, key, kind, payload):
        self.items.append((key, kind, payload))
        return self


def to_dict(node):
    """the dictionary the documented contract gives for the node (plain dict/list; property C02)"""
    d = OrderedDict()
    d["__type__"] = node.typ
    for key, kind, p in node.items:
        if kind == "simple":
            d[key] = p.value
        elif kind == "keyvalue":
            kv = OrderedDict((k.lower(), v) for k, v in p)
            kv["__type__"] = key
            d[key] = kv
        elif kind == "repeated":
            d.setdefault(key, []).append(p)
        elif kind == "children":
            d.setdefault(key, []).append(to_dict(p))
        elif kind == "child":
            d[key] = to_dict(p)
        elif kind == "projection":
            d[key] = list(p)
        elif kind == "pattern":
            d[key] = [tuple(x) for x in p]
        elif kind == "points":
            if key not in d:
                d[key] = [tuple(x) for x in p]
            else:
                if d[key] and isinstance(d[key][0], tuple):
                    d[key] = [d[key]]
                d[key].append([tuple(x) for x in p])
        elif kind == "config":
            d.setdefault("config", OrderedDict())[p[0].lower()] = p[1]
    return d


def render(node, indent=0, style=None):
    """independent renderer (one keyword per line, two-space indent); ``style`` may vary the surface"""
    st = style or Style()
    sp = st.indent_unit * indent
    lines = [sp + st.kw(node.typ.upper())]
    sp2 = st.indent_unit * (indent + 1)
    for key, kind, p in node.items:
        K = st.kw(key.upper())
        if kind == "simple":
            lines.append(f"{sp2}{K}{st.sep()}{st.value_text(p)}")
        elif kind == "keyvalue":
            lines.append(sp2 + K)
            for k, v in p:
                lines.append(f"{sp2}{st.indent_unit}{st.quote(k)}{st.sep()}{st.quote(v)}")
            lines.append(sp2 + st.kw("END"))
        elif kind == "repeated":
            lines.append(f"{sp2}{K}{st.sep()}{st.quote(p)}")
        elif kind in ("children", "child"):
            lines.extend(render(p, indent + 1, st).split("\n"))
        elif kind == "projection":
            lines.append(sp2 + K)
            for v in p:
                lines.append(f"{sp2}{st.indent_unit}{st.quote(v)}")
            lines.append(sp2 + st.kw("END"))
        elif kind in ("points", "pattern"):
            lines.append(sp2 + K)
            for a, b in p:
                lines.append(f"{sp2}{st.indent_unit}{a}{st.sep()}{b}")
            lines.append(sp2 + st.kw("END"))
        elif kind == "config":
            lines.append(f"{sp2}{st.kw('CONFIG')}{st.sep()}{st.quote(p[0])}{st.sep()}{st.quote(p[1])}")
    lines.append(sp + st.kw("END"))
    return "\n".join(lines)


class Style:
    """surface rendering choices; the default is plain upper-case, one blank, double quotes"""
    indent_unit = "  "

    def kw(self, s):
        return s

    def sep(self):
        return " "

    def quote(self, s):
        return f'"{s}"'

    def value_text(self, alt):
        return alt.text


PARENT = {  # a parent chain in which the type can occur as a block: (parent type, key, kind)
    "layer": ("map", "layers", "children"), "class": ("layer", "classes", "children"), "style": ("class", "styles", "children"),
    "label": ("class", "labels", "children"), "web": ("map", "web", "child"), "legend": ("map", "legend", "child"),
    "querymap": ("map", "querymap", "child"), "reference": ("map", "reference", "child"), "scalebar": ("map", "scalebar", "child"),
    "outputformat": ("map", "outputformats", "children"), "symbol": ("map", "symbols", "children"), "feature": ("layer", "features", "children"),
    "join": ("layer", "joins", "children"), "cluster": ("layer", "cluster", "child"), "grid": ("layer", "grid", "child"),
    "composite": ("layer", "composites", "children"), "scaletoken": ("layer", "scaletokens", "children"), "leader": ("class", "leader", "child"),
}

REQUIRED_MIN = {  # minimal valid content per type (keywords the schemas require)
}


def minimal(typ):
    n = Node(typ)
    req = SC.expanded(typ).get("required", [])
    for k in req:
        if k == "__type__":
            continue
        alts = alternatives(typ, k) if (typ, k) in SC.value_slots() else []
        if alts:
            n.add(k, "simple", alts[0])
    return n


def wrap_in_parents(node):
    """embed the node in its parent chain up to MAP; returns (root node, path to the node)"""
    path = []
    cur = node
    while cur.typ in PARENT:
        ptyp, key, kind = PARENT[cur.typ]
        parent = minimal(ptyp)
        parent.add(key, kind, cur)
        path.insert(0, (key, kind))
        cur = parent
    return cur, path


def find_in(d, path):
    cur = d
    for key, kind in path:
        cur = cur[key]
        if kind == "children":
            cur = cur[-1]
    return cur


def sample_payload(typ, key, kind, rnd=None, depth=0):
    if kind == "keyvalue":
        if rnd and rnd.random() < 0.25:
            return [("Key_One", "value one"), ("wms_title", 'The \\"best\\" title'), ("k3", "3")]    # an escaped quote inside a value
        if rnd and rnd.random() < 0.25:
            # a key given twice (in two spellings) with another key in between: the last value wins, at the first position
            return [("wms_title", "first"), ("wms_srs", "EPSG:4326"), ("WMS_TITLE", "second"), ("k3", "3")]
        return [("Key_One", "value one"), ("wms_title", "Title"), ("k3", "3")]
    if kind == "repeated":
        return "BANDS=1,2,3" if key != "include" else "other.map"
    if kind == "projection":
        if rnd and rnd.random() < 0.3:
            return ["proj=longlat", "'init=epsg:4326'", "no_defs"]       # a string that itself carries quotes
        return ["init=epsg:4326"] if not rnd or rnd.random() < 0.5 else ["proj=utm", "zone=11", "datum=WGS84"]
    if kind in ("points", "pattern"):
        return [(1, 2), (3.5, 4)] if kind == "points" else [(5, 5), (2.5, 3)]
    if kind == "config":
        return ("MS_ERRORFILE", "/tmp/ms.log")
    if kind in ("children", "child"):
        ctyp = PLURAL.get(key, key)
        return minimal(ctyp) if depth > 2 else random_node(ctyp, rnd, depth + 1) if rnd else minimal(ctyp)
    raise ValueError(kind)


def random_node(typ, rnd, depth=0, max_items=6):
    n = minimal(typ)
    present = {k for k, _, _ in n.items}
    sk = simple_keys(typ)
    bk = block_keys(typ)
    k_items = rnd.randint(0, max_items)
    for _ in range(k_items):
        if bk and rnd.random() < 0.35 and depth < 4:
            key, kind = rnd.choice(bk)
            if kind in ("child", "keyvalue", "projection", "pattern") and key in present:
                continue
            if kind == "points" and key in present and typ != "feature":
                continue
            if key == "include":
                continue
            ctyp = PLURAL.get(key, key)
            if kind in ("children", "child") and ctyp not in SC.object_types():
                continue
            if kind == "children" and key in present and SC.expanded(typ)["properties"][key].get("maxItems") == 1:
                continue
            n.add(key, kind, sample_payload(typ, key, kind, rnd, depth))
            present.add(key)
        elif sk:
            key = rnd.choice(sk)
            if key in present:
                continue
            alts = [a for a in alternatives(typ, key) if (typ, key, a.text.upper()) not in LISTED_UNPARSABLE]
            if not alts:
                continue
            n.add(key, "simple", rnd.choice(alts))
            present.add(key)
    return n


# vocabulary cells that are listed known findings (known_findings.json: the text does not parse).  They are exercised, and
# reported as KNOWN-FINDING, by the single-cell documents; RANDOM documents leave them out so that a listed finding is not
# reported again under a seed-dependent key.  Nothing else is excluded.
LISTED_UNPARSABLE = {("querymap", "style", "NORMAL"), ("outputformat", "imagemode", "FEATURE")}


def all_slots():
    """every (type, keyword, alternative) of the vocabulary"""
    for typ in SC.object_types():
        for key in simple_keys(typ):
            for alt in alternatives(typ, key):
                yield typ, key, alt


def payload_variants(typ, key, kind):
    """the shapes of a block-valued / repeatable keyword that the single-cell documents cover deterministically"""
    if kind == "keyvalue":
        return [[("Key_One", "value one"), ("wms_title", "Title"), ("k3", "3")],
                [("Key_One", "value one"), ("wms_title", 'The \\"best\\" title'), ("k3", "3")],
                [("wms_title", "first"), ("wms_srs", "EPSG:4326"), ("WMS_TITLE", "second"), ("k3", "3")],
                []]
    if kind == "projection":
        return [["init=epsg:4326"], ["proj=utm", "zone=11", "datum=WGS84"], ["proj=longlat", "'init=epsg:4326'", "no_defs"]]
    if kind in ("children", "child"):
        ctyp = PLURAL.get(key, key)
        return [minimal(ctyp)] if ctyp in SC.object_types() else []
    try:
        return [sample_payload(typ, key, kind)]
    except ValueError:
        return []


def block_documents():
    """(key, root node, path): every block-valued / repeatable keyword of every type, in every payload variant; repeatable
    ones (PROCESSING ..., child lists, POINTS under FEATURE) also given twice"""
    for typ in SC.object_types():
        if typ == "symbolset":
            continue
        for key, kind in block_keys(typ):
            for vi, payload in enumerate(payload_variants(typ, key, kind)):
                for twice in ((False, True) if (kind in ("repeated", "children") or (kind == "points" and typ == "feature")) else (False,)):
                    if twice and kind == "children" and SC.expanded(typ)["properties"][key].get("maxItems") == 1:
                        continue
                    node = minimal(typ)
                    node.add(key, kind, payload)
                    if twice:
                        node.add(key, kind, payload if kind != "repeated" else "SECOND=2")
                    root, path = wrap_in_parents(node)
                    yield f"{typ}.{key}:{kind}:v{vi}{'x2' if twice else ''}", root, path


# documents in which one keyword occurs in two object kinds whose schemas define it differently (the printer must look the
# keyword up per object type): text, and whether the second value is an expression / binding / enumerated word
CROSS_TYPE_TEXTS = [
    'MAP\n  LAYER\n    NAME "l"\n    TYPE POINT\n    GROUP "transport"\n    CLUSTER\n      MAXDISTANCE 20\n      GROUP ("[species]" = "oak")\n    END\n  END\nEND',
    'MAP\n  LAYER\n    NAME "l"\n    TYPE POINT\n    FEATURE\n      POINTS\n        1 1\n      END\n      TEXT "hello"\n    END\n    CLASS\n      TEXT ("[name]" + "-" + "[code]")\n    END\n  END\nEND',
    'MAP\n  LEGEND\n    POSITION UL\n  END\n  SCALEBAR\n    ALIGN CENTER\n    POSITION LR\n  END\n  LAYER\n    NAME "l"\n    TYPE POINT\n    CLASS\n      LABEL\n        POSITION [labelpos]\n        ALIGN [labelalign]\n      END\n    END\n  END\nEND',
    'LAYER\n  NAME "l"\n  TYPE POINT\n  CLASS\n    STYLE\n      SIZE 8\n      ANGLE 30\n    END\n    LABEL\n      SIZE SMALL\n      ANGLE FOLLOW\n    END\n  END\nEND',
    'LAYER\n  NAME "l"\n  TYPE POINT\n  CLASS\n    STYLE\n      SIZE [sz]\n      OFFSET 1 2\n    END\n    LABEL\n      SIZE LARGE\n      OFFSET [ox] [oy]\n    END\n  END\nEND',
    'MAP\n  SIZE 400 300\n  LAYER\n    NAME "l"\n    TYPE POINT\n    CLASS\n      STYLE\n        SIZE 7.5\n      END\n      LABEL\n        SIZE TINY\n      END\n    END\n  END\n  SCALEBAR\n    SIZE 200 3\n  END\nEND',
]
