"""larkshape — callback argument shapes derived mechanically from the compiled grammar.

``Parser()._create_lalr_parser()`` is run natively; ``lalr.rules`` is the compiled BNF.  For every rule
alternative we compute the list of *child slots* Lark's tree builder hands to the callback
(assumed contract of Lark's tree builder, DESIGN §2):

  * a terminal is kept unless ``filter_out`` is set and the rule does not ``keep_all_tokens``,
  * ``_rule`` (inlined) children are spliced,
  * ``__x_star_n`` / ``__x_plus_n`` helpers are spliced as a repetition of their element alternatives,
  * a ``?rule`` alternative with exactly one child is replaced by that child (no callback).

A child slot is ('T', TERMINAL) | ('R', callback-name) | ('rep', [alternatives...]) where the kinds a
non-terminal can produce are closed under the rule graph (``kinds_of``).
"""
from __future__ import annotations
import functools
import itertools


@functools.lru_cache(maxsize=None)
def _rules():
    from mappyfile.parser import Parser
    p = Parser()
    by = {}
    for r in p.lalr.rules:
        by.setdefault(r.origin.name, []).append(r)
    return by


def terminals():
    from mappyfile.parser import Parser
    return {t.name: t for t in Parser().lalr.terminals}


def rule_names():
    return sorted(_rules())


def is_helper(name):
    return name.startswith("__") and ("_star_" in name or "_plus_" in name)


def is_inline(name):
    return name.startswith("_") and not is_helper(name)


def callback_name(rule):
    return rule.alias or rule.origin.name


def _kept(sym, rule):
    if not sym.is_term:
        return True
    return not (getattr(sym, "filter_out", False) and not rule.options.keep_all_tokens)


def _helper_elements(name):
    """alternatives (lists of symbols) of one repetition of a star/plus helper"""
    out = []
    for r in _rules()[name]:
        syms = [s for s in r.expansion if not (not s.is_term and s.name == name)]
        out.append((r, syms))
    # de-duplicate
    seen, res = set(), []
    for r, syms in out:
        key = tuple(s.name for s in syms)
        if key not in seen:
            seen.add(key)
            res.append((r, syms))
    return res


def _expand_symbols(rule, syms, depth=0):
    """-> list of alternatives, each a list of child slots"""
    alts = [[]]
    for s in syms:
        if s.is_term:
            if _kept(s, rule):
                alts = [a + [("T", s.name)] for a in alts]
            continue
        n = s.name
        if is_helper(n):
            elems = []
            for r2, syms2 in _helper_elements(n):
                elems.extend(_expand_symbols(r2, syms2, depth + 1))
            alts = [a + [("rep", tuple(tuple(e) for e in elems))] for a in alts]
        elif is_inline(n):
            sub = []
            for r2 in _rules()[n]:
                sub.extend(_expand_symbols(r2, r2.expansion, depth + 1))
            alts = [a + list(b) for a in alts for b in sub]
        else:
            ks = sorted(kinds_of(n))
            alts = [a + [k] for a in alts for k in ks]
    return alts


@functools.lru_cache(maxsize=None)
def kinds_of(name):
    """the set of child slots a non-terminal can contribute to its parent"""
    return frozenset(_kinds_of(name, frozenset()))


def _kinds_of(name, visiting):
    out = set()
    if name in visiting:
        return out
    for r in _rules()[name]:
        kept = [s for s in r.expansion if _kept(s, r)]
        if r.options.expand1 and len(kept) == 1 and not r.alias:
            s = kept[0]
            if s.is_term:
                out.add(("T", s.name))
            elif is_inline(s.name):
                for r2 in _rules()[s.name]:
                    for alt in _expand_symbols(r2, r2.expansion):
                        if len(alt) == 1:
                            out.add(alt[0])
                        else:
                            out.add(("R", callback_name(r)))
            else:
                out |= _kinds_of(s.name, visiting | {name})
        else:
            out.add(("R", callback_name(r)))
    return out


@functools.lru_cache(maxsize=None)
def callbacks():
    """callback name -> list of (rule, [alternatives of child slots])"""
    out = {}
    for name, rs in _rules().items():
        if is_helper(name) or is_inline(name):
            continue
        for r in rs:
            kept = [s for s in r.expansion if _kept(s, r)]
            if r.options.expand1 and len(kept) == 1 and not r.alias:
                continue   # collapsed: no callback for this alternative
            cb = callback_name(r)
            out.setdefault(cb, []).append((r, _expand_symbols(r, r.expansion)))
    return out


def shapes(cb):
    """all child-slot lists the callback ``cb`` can receive (repetitions kept symbolic)"""
    res, seen = [], set()
    for r, alts in callbacks().get(cb, []):
        for a in alts:
            key = tuple(a)
            if key not in seen:
                seen.add(key)
                res.append(list(a))
    return res


def shape_name(shape):
    def one(s):
        if s[0] == "rep":
            return "(" + "|".join("+".join(one(x) for x in alt) for alt in s[1]) + ")*"
        return f"{s[0]}:{s[1]}"
    return ",".join(one(s) for s in shape) or "<empty>"


if __name__ == "__main__":
    import sys
    sys.path.insert(0, "/verif")
    from pyvc import front
    front.use_repo()
    for cb in sorted(callbacks()):
        sh = shapes(cb)
        print(cb, len(sh))
        for s in sh[:6]:
            print("    ", shape_name(s))
