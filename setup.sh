#!/bin/sh
# Builds /verif/.venv offline: python 3.12 from /venv + z3-solver, cvc5, hypothesis from the wheelhouse,
# plus a .pth that exposes /venv's site-packages (lark, jsonschema, jsonref, click, mappyfile editable).
set -e
cd "$(dirname "$0")"
if [ -x .venv/bin/python ] && .venv/bin/python -c "import z3, lark, mappyfile, jsonschema, jsonref" 2>/dev/null; then
  echo "setup: .venv already usable"; exit 0
fi
rm -rf .venv
/venv/bin/python -m venv .venv
PIP_NO_INDEX=1 .venv/bin/pip install -q --no-index --find-links /opt/veriftools/wheels z3-solver cvc5 hypothesis
SP=$(.venv/bin/python -c "import sysconfig; print(sysconfig.get_paths()['purelib'])")
echo "import site; site.addsitedir('/venv/lib/python3.12/site-packages')" > "$SP/_repo_overlay.pth"
.venv/bin/python -c "import z3, lark, mappyfile, jsonschema, jsonref; print('setup ok: z3', z3.get_version_string(), 'lark', lark.__version__, 'mappyfile', mappyfile.__file__)"
