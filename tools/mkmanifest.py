#!/usr/bin/env python
"""writes /verif/MANIFEST.json from the table below (kept in one place so it stays valid)"""
import json, os
ROOT = os.path.dirname(os.path.dirname(os.path.abspath(__file__)))
BASE = json.load(open("/root/.vp/BASELINE.json"))["cmd"] if os.path.exists("/root/.vp/BASELINE.json") else ""

COMMON_NOTE = ("Trusted: the pyvc VC generator (its encoding of the Python subset; cross-checked by native replay of every "
               "counter-model and by canary mutants that must fail on every run), z3 5.1 / cvc5 1.0.3, the modelled CPython "
               "built-ins (str/list/dict/OrderedDict; lower/upper/strip as axiomatised uninterpreted functions; int mathematical, "
               "float as real), Lark, jsonschema, jsonref. Partial correctness only (termination unverified).")

TECH_P = "contract-based deductive verification: sidecar contracts on the real functions, VCs generated from /repo's AST by pyvc (symbolic execution, loop contracts, modular calls), discharged by z3 / cvc5; counter-models replayed natively"

def _load_plans():
    import sys
    sys.path.insert(0, ROOT)
    from props import plans
    return plans.PLANS

EXTRA = {
 "C03": dict(level="proof", explanation="format_value verified per schema slot x value kind x quote against spec.render; structure by the _format/pprint/block-writer contracts", b=["b_reader", "b_numbers"], e=[]),
 "C16": dict(level="proof", explanation="every line-producing function of pprint.py verified against the layout clauses for symbolic indent/level/spacer/newline/flags; unbounded dictionaries by loop contracts", b=["b_layout"], e=[]),
}

DESIGN_REF = "DESIGN.md §4 "

def build_checks():
    plans = dict(_load_plans())
    plans.update({k: v for k, v in EXTRA.items() if k not in plans})
    out = {}
    for pid, p in plans.items():
        parts = [TECH_P]
        if p.get("e"):
            parts.append("finite repository tables enumerated completely (" + ", ".join(p["e"]) + ")")
        if p.get("b"):
            parts.append("bounded stand-ins at the Lark / jsonschema / OS seams (" + ", ".join(p["b"]) + "), labelled bounded and never counted as proved")
        out[pid] = dict(cat=p["level"], tech="; ".join(parts), text=p["explanation"], ref=DESIGN_REF + pid)
    return out

CHECKS = build_checks()

NOT_YET = {}

def main():
    props = [json.loads(l) for l in open(os.path.join(ROOT, "properties.jsonl"))]
    checks = []
    na = []
    for p in props:
        pid = p["id"]
        c = CHECKS.get(pid)
        if c is None:
            na.append(dict(property_id=pid, reason=NOT_YET.get(pid, "check not built yet in this session (work in progress; see DESIGN.md §4 for the plan)")))
            continue
        checks.append(dict(
            property_id=pid,
            quick_cmd=f".venv/bin/python check.py {pid} --tier quick",
            thorough_cmd=f".venv/bin/python check.py {pid} --tier thorough",
            evidence_file=f"evidence/{pid}.json",
            replay_cmd_template=f".venv/bin/python check.py {pid} --replay {{path}}",
            engine="pyvc",
            level_claimed=dict(category=c["cat"], text=c["text"], design_ref=c["ref"]),
            level_note=c.get("note", COMMON_NOTE),
            technique=c["tech"],
        ))
    m = dict(
        version=1,
        setup_cmd="sh setup.sh",
        hooks=dict(guard="MAPPYFILE_VERIF", enable="no repository file is instrumented: contracts are a sidecar under /verif/contracts and the verifier reads /repo's working tree on every run",
                   baseline_off_cmd=BASE.replace("<file>", "/var/tmp/mappyfile-baseline.junit.xml"), source_commits=[], add_only=True),
        engines=[
            dict(name="pyvc", path="pyvc/", serves_properties=sorted(CHECKS), kind_free_text="contract-based deductive verifier for a Python subset: symbolic execution of the real AST, VCs to z3/cvc5, native replay of counter-models"),
        ],
        checks=checks,
        notes="See DESIGN.md. Exit codes of every check: 0 held, 1 violation (VIOLATION line), 2 undecided without bounded fallback, 3 checker error.",
        not_applicable=na,
    )
    with open(os.path.join(ROOT, "MANIFEST.json"), "w") as f:
        json.dump(m, f, indent=1)
    import jsonschema
    jsonschema.validate(m, json.load(open("/root/.vp/MANIFEST.schema.json")))
    print("MANIFEST.json written:", len(checks), "checks,", len(na), "not applicable")

if __name__ == "__main__":
    main()
