#!/usr/bin/env python
"""tools/seed_matrix.py [seed-ids...]  — runs, for every kept seeded change, the registered quick check of the property it
breaks against a scratch copy of /repo with the patch applied (never /repo itself), and records which obligations / seams
reported it in seeded/detection.json (merged per seed; 'history' entries written by hand are kept)."""
import json, os, re, shutil, subprocess, sys, tempfile

ROOT = os.path.dirname(os.path.dirname(os.path.abspath(__file__)))
sys.path.insert(0, os.path.join(ROOT, "tools"))
from mkseedmeta import SEEDS  # noqa: E402


def run(seed, prop):
    scr = tempfile.mkdtemp(prefix="mappyfile-verif-seed-", dir=os.environ.get("TMPDIR", "/var/tmp"))
    try:
        shutil.copytree("/repo", os.path.join(scr, "repo"), ignore=shutil.ignore_patterns(".git"))
        patch = os.path.join(ROOT, "seeded", seed, "patch.diff")
        subprocess.run(["patch", "-p1", "-s", "-i", patch], cwd=os.path.join(scr, "repo"), check=True)
        env = dict(os.environ, VERIF_REPO=os.path.join(scr, "repo"), VERIF_OUT=os.path.join(scr, "out"))
        p = subprocess.run([os.path.join(ROOT, ".venv/bin/python"), "check.py", prop, "--tier", "quick"], cwd=ROOT, env=env,
                           capture_output=True, text=True)
        lines = p.stdout.splitlines()
        viol = [re.sub(r"^.*replays/[^/]+/", "", l) for l in lines if l.startswith("VIOLATION")]
        und = [l[:200] for l in lines if l.startswith("UNDECIDED")]
        err = [l[:200] for l in lines if l.startswith("CHECKER-ERROR")]
        contract = sorted({v for v in viol if v.startswith(("mappyfile.", "lemma"))})
        seam = sorted({v for v in viol if v.startswith("seam_")})
        table = sorted({v for v in viol if v.startswith("table_")})
        return dict(check=prop, exit=p.returncode, contract_obligations=contract[:12], n_contract=len(contract), tables=table[:8], n_table=len(table),
                    bounded_seams=seam[:8], n_seam=len(seam), undecided=und[:6], checker_errors=err[:3])
    finally:
        shutil.rmtree(scr, ignore_errors=True)


def main():
    want = sys.argv[1:] or sorted(SEEDS)
    dp = os.path.join(ROOT, "seeded", "detection.json")
    det = json.load(open(dp)) if os.path.exists(dp) else {}
    for seed in want:
        m = SEEDS[seed]
        r = run(seed, m.get("check", m["property"]))
        det = json.load(open(dp)) if os.path.exists(dp) else {}      # re-read: several matrix runs may work on disjoint seeds
        e = det.setdefault(seed, {})
        e["final"] = r
        e["caught"] = r["exit"] == 1
        print(seed, "exit", r["exit"], "contract", r["n_contract"], "table", r["n_table"], "seam", r["n_seam"], flush=True)
        json.dump(det, open(dp, "w"), indent=1, sort_keys=True)


if __name__ == "__main__":
    main()
