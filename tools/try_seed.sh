#!/bin/sh
# tools/try_seed.sh <patch.diff> <prop> [<prop> ...]   — run checks against a scratch copy of /repo with the patch applied
PATCH=$(readlink -f "$1"); shift
SCR=${TMPDIR:-/var/tmp}/mappyfile-verif-seed-$$
rm -rf "$SCR"; mkdir -p "$SCR"
cp -r /repo "$SCR/repo"; rm -rf "$SCR/repo/.git"
(cd "$SCR/repo" && patch -p1 -s < "$PATCH") || { echo "patch failed"; rm -rf "$SCR"; exit 9; }
cd /verif
for P in "$@"; do
  VERIF_REPO="$SCR/repo" VERIF_OUT="$SCR/out" .venv/bin/python check.py "$P" --tier ${TIER:-quick} > "$SCR/log" 2>&1
  RC=$?
  grep "VIOLATION\|KNOWN-FINDING\|UNDECIDED\|CHECKER-ERROR\|OUT-OF-REACH\|obligations=" "$SCR/log" | cut -c1-300 | head -${LINES_MAX:-10}
  echo "  -> $P exit=$RC"
done
rm -rf "$SCR"
