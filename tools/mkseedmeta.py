#!/usr/bin/env python
"""writes seeded/<id>/meta.json from the table below + the confirmation / detection logs"""
import json, os, sys
ROOT = os.path.dirname(os.path.dirname(os.path.abspath(__file__)))
SEEDS = {
 "seed-C01": dict(property="C01", also=["C03"], needs="a string value ending in 'i (Hawai'i) on a keyword typed as a plain string (NAME, GROUP, TEMPLATE): an operator-precedence slip (A and B or C) makes the case-insensitive-string shortcut fire for every string keyword; the value is written bare and the output no longer parses"),
 "seed-C02": dict(property="C02", also=[], needs="a PROJECTION line whose text, after its outer quotes are removed, is itself wrapped in quotes (\"'init=epsg:4326'\"): dropping the is_string guard in attr() sends the already-cleaned PROJECTION list through remove_quotes a second time (two cooperating sites)"),
 "seed-C03": dict(property="C03", also=[], needs="schema tidy-up: REFERENCE/SCALEBAR MARKER declared as type: [integer, string] instead of oneOf; validation unchanged, but the printer chooses the lexical class from the schema shape and writes a symbol name bare (MARKER big star)"),
 "seed-C05": dict(property="C05", also=["C02"], needs="an unquoted SYMBOL value on a later line than its SYMBOL keyword (line break, # comment or /* */ between them): the re-typing rule was made to depend on Token.line"),
 "seed-C06": dict(property="C06", also=["C16"], needs="align_values=True, a STYLE whose SYMBOL is a bare number and whose other keywords are shorter than 6 characters, indent in {0,1,2,3,6}: compute_max_key_length skips keys named like block keywords (COMPLEX_TYPES includes symbol) so the pad becomes empty (SYMBOL2)"),
 "seed-C07": dict(property="C07", also=[], needs="a dictionary whose __type__ value is written in upper case (hand-built or case-permuted): convert_lowercase no longer lower-cases values under __name__ keys, which cooperates with the case-insensitive schema selection of utils.validate"),
 "seed-C08": dict(property="C08", also=["C15"], needs="a form feed / vertical tab / U+2028 / NEL before the keyword of interest: load_includes uses str.splitlines() and re-joins with \\n, so every later token is recorded on a wrong line"),
 "seed-C09": dict(property="C09", also=["C12"], needs="ONE Validator asked about the same version for two different schema names (validate([map, layer], version=8.0)): 'already filtered' is remembered per version while the cache is keyed per name+version"),
 "seed-C10": dict(property="C10", also=[], needs="an AND whose left operand is an explicitly parenthesised OR group containing an AND: ((a AND b OR c) AND d); a 'flatten chains of the same operator' helper strips the group's parentheses when the operator text merely occurs inside it"),
 "seed-C11": dict(property="C11", also=[], needs="an unterminated quoted string followed by ~30+ backslashes: an extra 'escaped backslash' alternative in the string terminals overlaps the single-character alternative and the regex backtracks exponentially (loads hangs)"),
 "seed-C04": dict(property="C04", also=["C16", "C03"], needs="a METADATA/VALIDATION/VALUES value containing a backslash-escaped quote of the output quote kind: process_dict escapes quotes with a plain replace (no un-escaping first), so every formatting pass adds a backslash"),
 "seed-C12": dict(property="C12", also=["C14"], needs="one Parser(include_comments=True) reused: a first document with a comment after its last node (END # MAP), then a different, longer document: comments_dict is no longer reset per parse"),
 "seed-C13": dict(property="C13", also=["C14"], needs="include_comments=True and a SCALETOKEN without a VALUES block: the comments pass reads d['values'] on an auto-creating dict and plants an empty VALUES block"),
 "seed-C14": dict(property="C14", also=[], needs="two identical comment lines above one block opener (a banner with equal top and bottom rules): get_comments de-duplicates the comments of a node"),
 "seed-C15": dict(property="C15", also=[], needs="an include chain exactly five files deep whose fifth file has no INCLUDE: the depth check was moved from 'an INCLUDE line met at level 5' to 'entering level 5'"),
 "seed-C16": dict(property="C16", also=["C06"], needs="align_values=True with CONFIG (counts as a keyword), or SYMBOLSET / STYLE SYMBOL as the longest keyword (skipped): compute_max_key_length's ignore list replaced by COMPLEX_TYPES"),
 "seed-C17": dict(property="C17", also=[], needs="a key holding None (setdefault(K) without default, or update({K: None})) and then d[k] / pop / setdefault / copy: __getitem__ uses OrderedDict.get(...) is None as the 'missing' test"),
 "seed-C18": dict(property="C18", also=[], needs="a list of dicts where an item is (or becomes) empty: the list merge keeps an item only if update() returned a truthy dict ('{} means deleted')"),
 "seed-C19": dict(property="C19", also=["C07"], needs="STYLE WIDTH [attribute] validated without a version or with version >= 8.2: a new expression alternative (copied from SIZE, which uses anyOf) overlaps the binding alternative under WIDTH's oneOf"),
 "seed-C20": dict(property="C20", also=[], needs="mappyfile validate over files with >= 255 validation messages plus one unparseable file: parse failures are added after the 255 clamp, 255 + 1 wraps to exit status 0"),
 # ---- round 2 (sub-agents told which function round 1 had changed, and to pick another mechanism) ----
 "seed2-C01": dict(property="C01", also=["C02", "C04"], needs="a number whose Python repr is exponent notation (0.00001, 1e16): FLOAT re-defined in mapfile.lark without the exponent part, so the printer's own 1e-05 is read back as a string, a split token or a syntax error"),
 "seed2-C02": dict(property="C02", also=["C01"], needs="a float written with an exponent and no decimal point (1e6, 5E-1, 1e+16): local FLOAT terminal requires a decimal point; the literal becomes a string, an invented keyword or a parse error"),
 "seed2-C03": dict(property="C03", also=["C01"], needs="POINTS / PATTERN numbers with more than six decimals (-73.98765432) or |x| < 5e-7: format_pair_list rounds floats to 6 decimals"),
 "seed2-C04": dict(property="C04", also=["C10"], needs="an AND whose left operand is an explicit (… OR …) group containing an AND: shared join_tests helper strips the group's parentheses when the operator text occurs anywhere inside; the second formatting pass re-groups"),
 "seed2-C05": dict(property="C05", also=[], needs="a /* */ comment whose text ends in an even number of stars (/** section **/, /***/) followed later by another block comment: textbook CCOMMENT regex eats stars in pairs and the comment swallows the tokens in between"),
 "seed2-C06": dict(property="C06", also=["C03"], needs="EXPRESSION \"aitkin\"i / FILTER 'x'i (case-insensitive string comparison) with quote=\"'\": the 'i shortcut now goes through standardise_quotes, which rewrites the quote character stored as part of the value"),
 "seed2-C07": dict(property="C07", also=[], needs="two sibling objects of one list (two LAYERs, two CLASSes) that each have an object-level fault (missing required / unknown keyword): get_error_messages de-duplicates on the path with trailing indexes stripped"),
 "seed2-C08": dict(property="C08", also=[], needs="a multi-line /* */ comment before the keyword: CCOMMENT rewritten as [\\w\\W]*? (same matches) no longer passes Lark's 'may contain a newline' test, so the line counter is not advanced"),
 "seed2-C09": dict(property="C09", also=[], needs="STYLE PATTERN validated for a version below 6.0: get_versioned_properties skips keys named like JSON-schema data keywords (pattern, metadata, enum, …), and 'pattern' is also a Mapfile keyword with minVersion 6.0"),
 "seed2-C10": dict(property="C10", also=[], needs="the '!' spelling of NOT directly followed by an unparenthesised comparison (![a] = 1): grammar rule makes '!' bind to a single operand, the stored string re-parses differently"),
 "seed2-C11": dict(property="C11", also=[], needs="a character-level syntax error (unterminated double-quoted string, stray @ or ;): a friendlier log line reads ex.token / ex.expected, which UnexpectedCharacters does not have -> AttributeError escapes"),
 "seed2-C12": dict(property="C12", also=[], needs="two or more threads calling loads/open/load with include_comments=True on documents with comments: one Parser per option pair cached with functools.lru_cache, its comment buffer is shared"),
 "seed2-C13": dict(property="C13", also=["C02"], needs="include_position=True and a METADATA/VALIDATION/VALUES block with a duplicated key and another key in between: superseded pairs are dropped before the content dict is built, changing key order"),
 "seed2-C14": dict(property="C14", also=[], needs="a # comment whose whole text is a block type name (# layer, #METADATA, ## Class) above an opener or at the end of a keyword line: filtered out as an 'END # TYPE marker' by text, not by position"),
 "seed2-C15": dict(property="C15", also=[], needs="a line containing /* without a closing */ (a glob in a quoted path, a # comment mentioning /*) before an INCLUDE line: textual block-comment tracking in load_includes skips the directive"),
 "seed2-C16": dict(property="C16", also=[], needs="align_values=True and an object with a simple keyword printed after a nested object: the alignment column kept on the printer instance is overwritten by the recursion"),
 "seed2-C17": dict(property="C17", also=[], needs="setdefault(K, default) where K.lower() is present and K is not lower-case: presence tested on self.keys() (case-sensitive view), the default overwrites the stored value"),
 "seed2-C18": dict(property="C18", also=[], needs="update(..., overwrite=False) where the existing value is falsy (0, '', False, [], None): membership test replaced by truthiness"),
 "seed2-C19": dict(property="C19", also=["C07"], needs="LABEL REPEATDISTANCE: draft-04 exclusive minimum 0 made effective while the declared default stays 0; create('label', v >= 6.2) no longer validates"),
 "seed2-C20": dict(property="C20", also=["C13"], needs="open(path) with exactly one of include_comments / include_position: open delegates to load positionally and the two signatures order the flags differently; also `mappyfile format` without --comments writes comments"),
 # ---- round 3 (ten properties whose earlier seeds had been missed at a first trial; told both earlier mechanisms) ----
 "seed3-C01": dict(property="C01", also=["C03"], needs="the same keyword used in two object kinds with different schemas in one document, the 'wrong' kind printed first (LAYER GROUP then CLUSTER GROUP (expr); LEGEND POSITION then LABEL POSITION [binding]): get_attribute_properties memoised per keyword name (the same patch as seed3-C03, found independently by a second agent)"),
 "seed3-C03": dict(property="C03", also=["C01", "C12"], needs="one dumps call printing two object types that share a keyword with different schemas (STYLE SIZE 8 then LABEL SIZE small; LAYER GROUP then CLUSTER GROUP (expr)): get_attribute_properties memoised per keyword name only"),
 "seed3-C05": dict(property="C05", also=["C02"], needs="a SINGLE-quoted 8-digit hex colour with an upper-case letter in its alpha digits ('#FF00FFCC'): the single-quoted HEXCOLOR terminal's alpha group lost A-F, so the value is not lower-cased (or COLORRANGE fails to parse)"),
 "seed3-C07": dict(property="C07", also=["C12"], needs="validate([layer, class]) - a list of roots of DIFFERENT types: the Draft4Validator is cached on the Validator per version only, every later root is judged by the first root's schema"),
 "seed3-C08": dict(property="C08", also=[], needs="a constraint failure on ONE ITEM of a list-valued keyword whose schema is a plain array (LEGEND KEYSIZE 20 500, SCALEBAR SIZE, REFERENCE SIZE): create_message reports the position of the value token instead of the keyword"),
 "seed3-C12": dict(property="C12", also=["C09"], needs="two or more threads calling validate(d, version=V) on a cold cache: the schema caches became class attributes shared by all Validators, and get_versioned_schema trims the cached object in place"),
 "seed3-C13": dict(property="C13", also=["C01"], needs="a nested METADATA / VALIDATION / CONNECTIONOPTIONS / VALUES block with no pairs, loaded with include_position or include_comments: the printer skips 'empty' key-value blocks but counts the hidden bookkeeping keys as content"),
 "seed3-C14": dict(property="C14", also=[], needs="a /* */ comment spanning several lines above a block opener or after a keyword: format_comment prefixes '# ' to anything its regex (no DOTALL) does not recognise as a complete comment"),
 "seed3-C15": dict(property="C15", also=[], needs="an included file containing a quoted string that spans lines, pulled in by an indented INCLUDE line: the expanded text is re-indented with textwrap.indent before the splice"),
 "seed3-C16": dict(property="C16", also=[], needs="a FEATURE with two or more POINTS blocks and indent > 0: format_repeated_pair_list recurses with level + 1, every repeated block is printed one level too deep"),
 "seed4-C02": dict(property="C02", also=[], needs="a PROJECTION string whose content is itself wholly wrapped in the other quote character (PROJECTION \"'init=epsg:4326'\" END): the is_string guard of attr() removed, so the list already cleaned by projection() is cleaned again (the mechanism of seed-C02, found again independently in round 4)"),
 "seed4-C04": dict(property="C04", also=["C10", "C01"], needs="an EXPRESSION/TEXT expression containing a single-quoted literal with an unbalanced ')' inside ('a) primary'): is_group no longer treats ' as a string delimiter, so the group test fails and every load/dump pass adds one more pair of parentheses"),
 "seed4-C06": dict(property="C06", also=["C16", "C01"], needs="align_values=True, a key longer than 16 characters (LABELMAXSCALEDENOM, BACKGROUNDSHADOWSIZE) with an unquoted value, and an indent for which the value column computed from the shorter keys equals that key's length exactly (indent 6 with MAXSCALEDENOM, 5 with BACKGROUNDCOLOR ...): compute_max_key_length ignores long keys and __format_line tests > instead of >= (two cooperating sites); key and value are glued"),
 "seed4-C09": dict(property="C09", also=[], needs="a LAYER with a CLUSTER block validated at a version below 6.0: schema tidy-up in layer.json, allOf:[{$ref}] + metadata rewritten as $ref + metadata; jsonref drops the siblings of a $ref, so the minVersion annotation never reaches the version filter (connectionoptions, changed the same way, stays right because the referenced file repeats the annotation)"),
 "seed4-C10": dict(property="C10", also=["C01"], needs="explicit parentheses around a sum/product whose first and last operands are both padded groups ((([a] % 2) + ([b] % 3))): a shortcut in is_group returns True for any text that starts with '( ' and ends with ' )', cooperating with the comparison builder that writes % operands as padded groups; the explicit parentheses are dropped and operands regroup"),
 "seed4-C11": dict(property="C11", also=[], needs="an unterminated quoted string containing a run of 30+ backslashes: an 'escaped backslash' alternative added to both string terminals overlaps the single-character alternative, rejection time grows exponentially (the mechanism of seed-C11, found again independently in round 4)"),
 "seed4-C17": dict(property="C17", also=[], needs="a dict holding an EMPTY list or dict (an auto-created layers/classes list), deep-copied while it is still empty, then mutated in place through either side: __deepcopy__ rewritten entry by entry with 'deepcopy(value) if value else value', so falsy containers are shared"),
 "seed4-C18": dict(property="C18", also=[], needs="update() with a patch that APPENDS an item past the end of a list of dicts: the appended element is the patch's own dict (aliasing, visible only after a second update through one of the two maps) and its nested None placeholders / __delete__ items are no longer normalised"),
 "seed4-C19": dict(property="C19", also=["C03", "C01"], needs="one dumps call in which LAYER GROUP (plain string) is printed before a nested CLUSTER GROUP (expression): get_attribute_properties memoised per keyword name only (the mechanism of seed3-C01/seed3-C03, found again independently in round 4 and offered for C19); checked with C03, the property whose obligation it fails", check="C03"),
 "seed4-C20": dict(property="C20", also=["C12", "C15"], needs="one process, the same path rewritten within the same wall-clock second with new content of exactly the same UTF-8 byte length, then opened again: open_file keeps a module-level text cache keyed by (abspath, int(mtime), size)"),
}

def main():
    det_path = os.path.join(ROOT, "seeded", "detection.json")
    det = json.load(open(det_path)) if os.path.exists(det_path) else {}
    for sid, m in SEEDS.items():
        d = os.path.join(ROOT, "seeded", sid)
        if not os.path.isdir(d):
            continue
        conf = open(os.path.join(d, "confirmation.txt")).read().strip() if os.path.exists(os.path.join(d, "confirmation.txt")) else ""
        meta = dict(id=sid, breaks_property=m["property"], related_properties=m["also"], needs_to_manifest=m["needs"],
                    origin="written by an independent sub-agent that saw only the property text and a scratch worktree of /repo" + (" (round 2: also told which function the round-1 change had touched, to pick a different mechanism)" if sid.startswith("seed2") else " (round 3: told both earlier mechanisms)" if sid.startswith("seed3") else " (round 4: told nothing but the property text; asked for a less-trodden function)" if sid.startswith("seed4") else ""),
                    confirmed=conf,
                    what_was_run=["tools/confirm_seed.sh: scratch copy of /repo; demo.py exit 0 without the patch, exit 1 with it; full test-suite with the patch",
                                  "tools/try_seed.sh patch.diff <properties>: the registered quick checks with VERIF_REPO pointing at a scratch copy with the patch applied"],
                    detection=det.get(sid, {}))
        json.dump(meta, open(os.path.join(d, "meta.json"), "w"), indent=1)
    # markdown table for DESIGN.md §10.5 (seeded/TABLE.md)
    rows = ["| seed | breaks | what it needs to manifest | first trial | reported by (final machinery, quick tier) | strengthening made |",
            "|---|---|---|---|---|---|"]
    for sid, m in sorted(SEEDS.items()):
        e = det.get(sid, {})
        f = e.get("final", {})
        by = []
        if f.get("n_contract"):
            by.append(f"{f['n_contract']} contract obligation(s), e.g. `{f['contract_obligations'][0][:110]}`")
        if f.get("n_table"):
            by.append(f"{f['n_table']} table cell(s), e.g. `{f['tables'][0][:90]}`")
        if f.get("n_seam"):
            by.append(f"{f['n_seam']} bounded seam input(s), e.g. `{f['bounded_seams'][0][:90]}`")
        if f.get("undecided"):
            by.append(f"{len(f['undecided'])} obligation(s) UNDECIDED")
        verdict = "exit %s" % f.get("exit", "?")
        rows.append(f"| {sid} | {m['property']} | {m['needs'].split(':')[0][:160]} | {e.get('first_trial', '?')} | {verdict}: " + "; ".join(by) + f" | {e.get('strengthening', '')} |")
    open(os.path.join(ROOT, "seeded", "TABLE.md"), "w").write("\n".join(rows) + "\n")
    dp = os.path.join(ROOT, "DESIGN.md")
    ds = open(dp).read()
    a, b = "<!-- SEED-TABLE-BEGIN -->", "<!-- SEED-TABLE-END -->"
    if a in ds and b in ds:
        ds = ds[:ds.index(a) + len(a)] + "\n" + "\n".join(rows) + "\n" + ds[ds.index(b):]
        open(dp, "w").write(ds)
    print("meta written for", len([s for s in SEEDS if os.path.isdir(os.path.join(ROOT, "seeded", s))]), "seeds")

if __name__ == "__main__":
    main()
