#!/usr/bin/env python
"""tools/mutants.py map|run|report  — mutation analysis of the CONTRACTS (not of the bounded seams).

map     runs every contract job once on the current tree and records which repository function bodies each job interprets
        (its own target and every callee it inlines): mutation/map.json
run     for every function in the map: AST-positioned source mutants (comparison / boolean / arithmetic operator swaps,
        negation removal, constant changes, statement deletion), applied IN MEMORY to the text handed to the interpreter
        (pyvc.front.MUTATIONS, the mechanism of the canaries; /repo is not touched), each judged by the jobs that interpret
        the function (at most --cap jobs, the function's own contract first; stops at the first refuted obligation):
          killed     some obligation is refuted
          undecided  no refutation, but some obligation became unknown / out of reach / could not be generated
          survived   every obligation is still discharged  -> the contracts do not constrain what the mutant changed
        mutation/results.jsonl (appended; finished mutants are skipped on restart)
report  summary per function + list of survivors: mutation/REPORT.md

Survivors are either equivalent mutants (logging text, dead code, a second guard for the same condition) or holes in a
contract; each hole found this way is recorded in DESIGN.md §10.6 with what was done about it."""
from __future__ import annotations
import ast
import json
import multiprocessing as mp
import os
import random
import sys
import time

ROOT = os.path.dirname(os.path.dirname(os.path.abspath(__file__)))
sys.path.insert(0, ROOT)
OUT = os.path.join(ROOT, "mutation")
FILES = ["pprint.py", "quoter.py", "transformer.py", "parser.py", "validator.py", "utils.py", "dictutils.py", "ordereddict.py", "cli.py"]


def all_jobs():
    from props import plans, common
    from pyvc import api
    common.load_contracts(plans.ALL_MODULES)
    return [(c.name, case) for c in api.ALL for case in c.cases]


def cmd_map():
    from pyvc import front, runner
    from props import plans
    front.use_repo()
    jobs = all_jobs()
    t0 = time.time()
    recs = runner.run_p_jobs(jobs, plans.ALL_MODULES)
    cover = {}
    status = {}
    for r in recs:
        key = f"{r['function']}|{str(r['case']).split('@loop')[0]}"
        if r["verdict"] == "meta":
            for q in r.get("interpreted", []):
                cover.setdefault(q, set()).add(key)
        else:
            status.setdefault(key, set()).add(r["verdict"])
    os.makedirs(OUT, exist_ok=True)
    json.dump(dict(cover={k: sorted(v) for k, v in sorted(cover.items())},
                   clean={k: sorted(v) for k, v in sorted(status.items())}, jobs=len(jobs), seconds=round(time.time() - t0, 1)),
              open(os.path.join(OUT, "map.json"), "w"), indent=0)
    print(f"{len(jobs)} jobs, {len(cover)} functions interpreted, {time.time() - t0:.0f}s")


# ---------------------------------------------------------------------------------------------
# mutant generation
# ---------------------------------------------------------------------------------------------

CMP = {ast.Eq: "!=", ast.NotEq: "==", ast.Lt: "<=", ast.LtE: "<", ast.Gt: ">=", ast.GtE: ">", ast.In: "not in", ast.NotIn: "in",
       ast.Is: "is not", ast.IsNot: "is"}
BIN = {ast.Add: "-", ast.Sub: "+", ast.Mult: "//", ast.Div: "*", ast.FloorDiv: "*", ast.Mod: "//"}


def _offsets(src):
    starts = [0]
    for ln in src.split("\n"):
        starts.append(starts[-1] + len(ln) + 1)
    return starts


def _pos(starts, src_lines_bytes, lineno, col):
    # ast column offsets are UTF-8 byte offsets
    line = src_lines_bytes[lineno - 1]
    return starts[lineno - 1] + len(line[:col].decode("utf-8"))


def functions_of(tree, modname):
    out = []

    def walk(node, prefix):
        for ch in ast.iter_child_nodes(node):
            if isinstance(ch, ast.ClassDef):
                walk(ch, prefix + [ch.name])
            elif isinstance(ch, (ast.FunctionDef,)):
                q = ".".join([modname] + prefix + [ch.name])
                out.append((q, ch))
                walk(ch, prefix + [ch.name, "<locals>"])
    walk(tree, [])
    return out


def _skip_subtree(node):
    """logging / warning calls and exception messages: their text is not part of any property"""
    if isinstance(node, ast.Expr) and isinstance(node.value, ast.Call):
        f = node.value.func
        if isinstance(f, ast.Attribute) and isinstance(f.value, ast.Name) and f.value.id in ("log", "logger", "logging", "warnings"):
            return True
    if isinstance(node, ast.Expr) and isinstance(node.value, ast.Constant) and isinstance(node.value.value, str):
        return True          # docstring
    if isinstance(node, ast.Raise):
        return True
    return False


def mutants_of(fn_node, src, starts, lines_b):
    ms = []

    def seg(n):
        return _pos(starts, lines_b, n.lineno, n.col_offset), _pos(starts, lines_b, n.end_lineno, n.end_col_offset)

    def add(kind, a, b, new, line):
        new = new + "\n" * src[a:b].count("\n")        # keep the line numbering of the rest of the file (functions are found by line)
        if src[a:b] != new:
            ms.append(dict(kind=kind, start=a, end=b, old=src[a:b], new=new, line=line))

    def visit(node):
        for ch in ast.iter_child_nodes(node):
            if _skip_subtree(ch):
                continue
            if isinstance(ch, (ast.FunctionDef, ast.ClassDef)) and ch is not fn_node:
                continue
            if isinstance(ch, ast.arguments) or isinstance(ch, ast.arg):
                continue
            if isinstance(ch, ast.Compare) and len(ch.ops) == 1 and type(ch.ops[0]) in CMP:
                a = seg(ch.left)[1]
                b = seg(ch.comparators[0])[0]
                add("cmp", a, b, " " + CMP[type(ch.ops[0])] + " ", ch.lineno)
            if isinstance(ch, ast.BoolOp):
                # replace the first operator occurrence between value 0 and value 1
                a = seg(ch.values[0])[1]
                b = seg(ch.values[1])[0]
                add("bool", a, b, " or " if isinstance(ch.op, ast.And) else " and ", ch.lineno)
            if isinstance(ch, ast.UnaryOp) and isinstance(ch.op, ast.Not):
                a, b = seg(ch)
                oa, ob = seg(ch.operand)
                add("not", a, b, "(" + src[oa:ob] + ")", ch.lineno)
            if isinstance(ch, ast.BinOp) and type(ch.op) in BIN and not (isinstance(ch.left, ast.Constant) and isinstance(ch.left.value, str) and isinstance(ch.op, ast.Mod)):
                a = seg(ch.left)[1]
                b = seg(ch.right)[0]
                add("arith", a, b, " " + BIN[type(ch.op)] + " ", ch.lineno)
            if isinstance(ch, ast.Constant) and not isinstance(getattr(ch, "_parent_expr", None), ast.JoinedStr):
                a, b = seg(ch)
                v = ch.value
                if v is True or v is False:
                    add("const", a, b, "False" if v else "True", ch.lineno)
                elif isinstance(v, int):
                    add("const", a, b, str(v + 1), ch.lineno)
                    if v not in (0,):
                        add("const", a, b, "0", ch.lineno)
                elif isinstance(v, str) and v and not isinstance(node, ast.JoinedStr) and "\n" not in src[a:b]:
                    add("const", a, b, repr(v + "_X"), ch.lineno)
                    add("const", a, b, '""', ch.lineno)
            if isinstance(ch, (ast.Assign, ast.AugAssign, ast.Expr, ast.Continue, ast.Break)) and not isinstance(getattr(ch, "value", None), ast.Yield):
                a, b = seg(ch)
                add("del", a, b, "pass", ch.lineno)
            if isinstance(ch, ast.Return) and ch.value is not None and not (isinstance(ch.value, ast.Constant) and ch.value.value is None):
                a, b = seg(ch.value)
                add("ret", a, b, "None", ch.lineno)
            if isinstance(ch, ast.If):
                a, b = seg(ch.test)
                add("if", a, b, "True", ch.lineno)
                add("if", a, b, "False", ch.lineno)
            if isinstance(ch, ast.JoinedStr):
                continue
            visit(ch)
    visit(fn_node)
    return ms


def generate():
    from pyvc import front
    cover = json.load(open(os.path.join(OUT, "map.json")))["cover"]
    allm = []
    uncovered = []
    for fn in FILES:
        path = os.path.join(front.REPO, "mappyfile", fn)
        src = open(path, encoding="utf-8").read()
        tree = ast.parse(src)
        starts = _offsets(src)
        lines_b = [ln.encode("utf-8") for ln in src.split("\n")]
        for q, node in functions_of(tree, "mappyfile." + fn[:-3]):
            qq = q
            # name-mangled private methods are recorded under their mangled name
            parts = q.split(".")
            if parts[-1].startswith("__") and not parts[-1].endswith("__") and len(parts) > 2:
                qq = ".".join(parts[:-1] + ["_" + parts[-2].lstrip("_") + parts[-1]])
            jobs = cover.get(q) or cover.get(qq)
            if not jobs:
                uncovered.append(q)
                continue
            for i, m in enumerate(mutants_of(node, src, starts, lines_b)):
                m.update(file=fn, function=q, id=f"{fn}:{m['line']}:{m['kind']}:{i}", jobs=jobs)
                allm.append(m)
    return allm, uncovered


# ---------------------------------------------------------------------------------------------
# judging
# ---------------------------------------------------------------------------------------------

def _init(repo, modules):
    from pyvc import runner
    runner._init_worker(repo, modules)


def judge(args):
    m, cap, budget = args
    from pyvc import front, api, verify
    front.MUTATIONS[:] = [("pos", "mappyfile/" + m["file"], m["start"], m["end"], m["new"])]
    front._mod_cache.clear()
    t0 = time.time()
    own = [j for j in m["jobs"] if j.split("|")[0].split("/")[0] == m["function"] or m["function"].split(".")[-1] in j.split("|")[0]]
    rest = [j for j in m["jobs"] if j not in own]
    random.Random(m["id"]).shuffle(rest)
    order = (own + rest)[:cap]
    verdict, by, weak = "survived", None, []
    n = 0
    try:
        for j in order:
            if time.time() - t0 > budget:
                weak.append("budget")
                break
            cname, case = j.split("|", 1)
            c = next((x for x in api.ALL if x.name == cname), None)
            if c is None:
                continue
            case_obj = next((k for k in c.cases if str(k) == case), None)
            if case_obj is None:
                continue
            n += 1
            try:
                recs = verify.verify_case(c, case_obj, api.REGISTRY, want_models=False)
            except LookupError as ex:
                weak.append("lookup:" + str(ex)[:60])
                continue
            except Exception as ex:      # noqa: BLE001
                weak.append("error:" + type(ex).__name__)
                continue
            bad = [r for r in recs if r["verdict"] == "refuted"]
            if bad:
                verdict, by = "killed", bad[0]["name"]
                break
            weak += [r["verdict"] for r in recs if r["verdict"] not in ("proved", "meta")]
    finally:
        front.MUTATIONS[:] = []
        front._mod_cache.clear()
    if verdict != "killed" and weak:
        verdict = "undecided"
    return dict(id=m["id"], file=m["file"], function=m["function"], line=m["line"], kind=m["kind"], old=m["old"], new=m["new"],
                verdict=verdict, by=by, weak=sorted(set(weak))[:4], jobs_run=n, jobs_total=len(m["jobs"]), seconds=round(time.time() - t0, 1))


def cmd_run(argv):
    import argparse
    ap = argparse.ArgumentParser()
    ap.add_argument("--cap", type=int, default=40)
    ap.add_argument("--budget", type=float, default=150.0)
    ap.add_argument("--only", default="")
    ap.add_argument("--procs", type=int, default=16)
    ap.add_argument("--sample", type=int, default=0, help="at most N mutants per function (seeded)")
    a = ap.parse_args(argv)
    from pyvc import front
    from props import plans
    front.use_repo()
    ms, uncovered = generate()
    if a.only:
        ms = [m for m in ms if a.only in m["function"] or a.only in m["id"]]
    if a.sample:
        byf = {}
        for m in ms:
            byf.setdefault(m["function"], []).append(m)
        ms = []
        for f, lst in byf.items():
            random.Random(f).shuffle(lst)
            ms += lst[:a.sample]
    res_path = os.path.join(OUT, "results.jsonl")
    done = set()
    if os.path.exists(res_path):
        for l in open(res_path):
            try:
                done.add(json.loads(l)["id"])
            except ValueError:
                pass
    todo = [m for m in ms if m["id"] not in done]
    json.dump(uncovered, open(os.path.join(OUT, "uncovered.json"), "w"), indent=0)
    print(f"{len(ms)} mutants ({len(todo)} to do), {len(uncovered)} functions without a contract that interprets them", flush=True)
    ctx = mp.get_context("fork")
    t0 = time.time()
    with ctx.Pool(a.procs, initializer=_init, initargs=(front.REPO, plans.ALL_MODULES), maxtasksperchild=20) as pool, open(res_path, "a") as out:
        for i, r in enumerate(pool.imap_unordered(judge, [(m, a.cap, a.budget) for m in todo], chunksize=1)):
            out.write(json.dumps(r) + "\n")
            out.flush()
            if i % 25 == 0:
                print(f"  {i + 1}/{len(todo)} {time.time() - t0:.0f}s last={r['id']} {r['verdict']}", flush=True)
    print("done", f"{time.time() - t0:.0f}s")


def cmd_report():
    res = {}
    for l in open(os.path.join(OUT, "results.jsonl")):
        r = json.loads(l)
        res[r["id"]] = r
    byf = {}
    for r in res.values():
        byf.setdefault(r["function"], []).append(r)
    tot = dict(killed=0, undecided=0, survived=0)
    lines = ["# Mutation analysis of the contracts", "",
             "`tools/mutants.py map|run|report`; mutants are applied in memory to the text handed to the interpreter, /repo is not touched.",
             "killed = an obligation is refuted; undecided = no refutation but an obligation became unknown / out of reach; survived = all obligations still discharged.", "",
             "| function | mutants | killed | undecided | survived |", "|---|---|---|---|---|"]
    for f in sorted(byf):
        c = dict(killed=0, undecided=0, survived=0)
        for r in byf[f]:
            c[r["verdict"]] += 1
            tot[r["verdict"]] += 1
        lines.append(f"| {f} | {len(byf[f])} | {c['killed']} | {c['undecided']} | {c['survived']} |")
    lines.insert(5, f"Total: {sum(tot.values())} mutants: {tot['killed']} killed, {tot['undecided']} undecided, {tot['survived']} survived.")
    lines.insert(6, "")
    lines += ["", "## Survivors", ""]
    for f in sorted(byf):
        for r in sorted(byf[f], key=lambda r: r["line"]):
            if r["verdict"] == "survived":
                lines.append(f"- `{r['file']}:{r['line']}` {f.split('.')[-1]} [{r['kind']}] `{r['old'].strip()[:60]}` -> `{r['new'].strip()[:40]}` ({r['jobs_run']}/{r['jobs_total']} jobs)")
    try:
        unc = json.load(open(os.path.join(OUT, "uncovered.json")))
        lines += ["", "## Functions no contract interprets", ""] + [f"- {u}" for u in unc]
    except OSError:
        pass
    open(os.path.join(OUT, "REPORT.md"), "w").write("\n".join(lines) + "\n")
    print(lines[5])


if __name__ == "__main__":
    cmd = sys.argv[1] if len(sys.argv) > 1 else "report"
    if cmd == "map":
        cmd_map()
    elif cmd == "run":
        cmd_run(sys.argv[2:])
    else:
        cmd_report()
