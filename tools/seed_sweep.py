#!/usr/bin/env python
"""tools/seed_sweep.py [first_seed] [n_seeds] [tier] — runs every bounded seam of every plan for several VERIF_SEED values on the
current tree and prints, per (seam, seed), the number of failing inputs that are NOT known findings of any property using it.
A sound seam reports 0 everywhere on the unchanged tree: the checks must not depend on the seed they are given."""
import fnmatch, json, multiprocessing as mp, os, sys, time
ROOT = os.path.dirname(os.path.dirname(os.path.abspath(__file__)))
sys.path.insert(0, ROOT)


def job(a):
    name, seed, tier = a
    from props import plans
    t0 = time.time()
    try:
        r = plans.seam(name)(tier, seed)
    except Exception as e:
        import traceback
        return name, seed, "CRASH " + traceback.format_exc()[-600:], time.time() - t0
    recs = r if isinstance(r, list) else [r]
    out = []
    for rec in recs:
        for fl in rec.get("failures", []):
            out.append(f"{rec['name']}:{fl.get('key', '')}")
    return name, seed, out, time.time() - t0


def main():
    first = int(sys.argv[1]) if len(sys.argv) > 1 else 1
    n = int(sys.argv[2]) if len(sys.argv) > 2 else 4
    tier = sys.argv[3] if len(sys.argv) > 3 else "quick"
    from props import plans
    uses = {}
    for prop, pl in plans.PLANS.items():
        for b in pl.get("b", []):
            uses.setdefault(b, []).append(prop)
    for prop, extra in getattr(plans, "EXTRA_SEAMS", {}).items():
        for b in extra:
            uses.setdefault(b, []).append(prop)
    known = json.load(open(os.path.join(ROOT, "known_findings.json")))["findings"]
    jobs = [(b, s, tier) for b in sorted(uses) for s in range(first, first + n)]
    bad = 0
    from concurrent.futures import ProcessPoolExecutor, as_completed
    with ProcessPoolExecutor(14, mp_context=mp.get_context("fork")) as pool:
        for fut in as_completed([pool.submit(job, j) for j in jobs]):
            name, seed, out, dt = fut.result()
            if isinstance(out, str):
                print(f"{name} seed={seed} {out}")
                bad += 1
                continue
            for prop in uses[name]:
                unk = [k for k in out if not any(f["property"] == prop and (f["obligation"] == k or fnmatch.fnmatchcase(k, f["obligation"])) for f in known)]
                if unk:
                    bad += 1
                    print(f"{name} seed={seed} property={prop}: {len(unk)} unlisted failing input(s): {unk[:4]}")
            print(f"  done {name} seed={seed} {dt:.0f}s failures={len(out)}", flush=True)
    print("SWEEP", "CLEAN" if not bad else f"{bad} PROBLEMS")


if __name__ == "__main__":
    main()
