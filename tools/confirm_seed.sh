#!/bin/sh
# tools/confirm_seed.sh <id> <patch> <demo> : confirm a seeded change in a scratch copy (demo passes without, fails with; tests pass with)
ID=$1; PATCH=$(readlink -f $2); DEMO=$(readlink -f $3)
SCR=${TMPDIR:-/var/tmp}/mappyfile-verif-confirm-$$
rm -rf $SCR; mkdir -p $SCR; cp -r /repo $SCR/repo; rm -rf $SCR/repo/.git
cd $SCR/repo
cp $DEMO ./demo_seed.py
/venv/bin/python demo_seed.py > $SCR/demo_without.txt 2>&1; A=$?
patch -p1 -s < $PATCH || { echo "PATCH FAILED"; rm -rf $SCR; exit 9; }
/venv/bin/python -c "import mappyfile,sys; sys.exit(0 if mappyfile.__file__.startswith('$SCR') else 1)" || echo "WARNING: wrong mappyfile imported"
/venv/bin/python demo_seed.py > $SCR/demo_with.txt 2>&1; B=$?
if [ "$SKIPTESTS" = "1" ]; then T="skipped"; else
/venv/bin/python -m pytest -q -p no:cacheprovider tests docs --deselect tests/test_map_collection.py::test_maps > $SCR/tests.txt 2>&1; T=$(tail -n 1 $SCR/tests.txt); fi
echo "$ID: demo without patch exit=$A, with patch exit=$B, tests: $T"
mkdir -p /verif/seeded/$ID
cp $PATCH /verif/seeded/$ID/patch.diff; cp $DEMO /verif/seeded/$ID/demo.py
tail -n 15 $SCR/demo_with.txt > /verif/seeded/$ID/demo_with_patch.txt; tail -n 5 $SCR/demo_without.txt > /verif/seeded/$ID/demo_without_patch.txt
echo "$ID: demo without patch exit=$A, with patch exit=$B, tests: $T" > /verif/seeded/$ID/confirmation.txt
rm -rf $SCR
