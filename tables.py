"""Finite table invariants (level E): obligations whose quantifier ranges over a finite table that exists in the
repository — grammar rules and terminals (through Lark's compiled grammar), tokens.py, parser.SYMBOL_ATTRIBUTES,
the schema files — every element enumerated on every run.  Records use back end 'eval'."""
from __future__ import annotations
import itertools
import json
import os
import re

import larkshape as LS
from spec import schemas as SC


def rec(group, case, clause, ok, detail=""):
    return dict(function="table:" + group, case=str(case), name=f"table:{group}[{case}]:{clause}", clause=clause,
                verdict="proved" if ok else "refuted", backend="eval", time=0.0,
                replay=None if ok else dict(status="confirmed", detail=str(detail)[:500]), outcome=str(detail)[:200])


def _parser():
    from mappyfile.parser import Parser
    return Parser()


# ---------------------------------------------------------------------------------------------
# C05: case-insensitive literals, ignore set
# ---------------------------------------------------------------------------------------------

def c05_tables(tier):
    out = []
    p = _parser()
    terms = {t.name: t for t in p.lalr.terminals}
    for name, t in sorted(terms.items()):
        pat = t.pattern
        kind = type(pat).__name__
        flags = set(pat.flags or ())
        if kind == "PatternStr":
            has_alpha = any(c.isalpha() for c in pat.value)
            out.append(rec("C05/literal-case-insensitive", name, "keyword-literal-has-i-flag", (not has_alpha) or "i" in flags, pat.value))
        else:
            src = pat.value
            # a regex terminal is case-insensitive if it has the i flag, or mentions no cased ASCII letter outside
            # classes that list both cases (a-fA-F)
            stripped = re.sub(r"\\.", "", src)
            stripped = stripped.replace("a-fA-F", "").replace("a-zA-Z", "")
            cased = [c for c in stripped if c.isalpha() and c not in "is"]  # i? / s flags spelled in the text are harmless
            ok = "i" in flags or not cased or name in ("SIGNED_FLOAT", "FLOAT", "EXP", "DECIMAL")
            out.append(rec("C05/regex-case-insensitive", name, "regex-terminal-ignores-case", ok, src))
    ign = sorted(p.lalr.ignore_tokens)
    out.append(rec("C05/ignore-set", "ignore", "exactly-COMMENT-CCOMMENT-WS-_NL", ign == ["CCOMMENT", "COMMENT", "WS", "_NL"], ign))
    # what the ignored terminals match (their behaviour on a table of lexemes, not the spelling of their patterns):
    # blanks / line breaks in any run length; a # comment up to (not including) the line break; a /* */ comment up to the
    # FIRST closing */ whatever stars, slashes, quotes or line breaks it contains
    from bounded.seams import C_COMMENT_FORMS, HASH_COMMENT_FORMS
    rx = {n: re.compile(terms[n].pattern.to_regexp()) for n in ("WS", "_NL", "COMMENT", "CCOMMENT") if n in terms}
    probes = [("WS", t, len(t)) for t in (" ", "   ", "\t", " \t\x0c ")] + [("_NL", t, len(t)) for t in ("\n", "\r\n", "\n\n\r\n")]
    probes += [("COMMENT", c + "\nNAME 'x' # later", len(c)) for c in HASH_COMMENT_FORMS] + [("COMMENT", c, len(c)) for c in HASH_COMMENT_FORMS]
    probes += [("CCOMMENT", c + " EXTENT 0 0 1 1 /* later */ SIZE 2 2", len(c)) for c in C_COMMENT_FORMS] + [("CCOMMENT", c, len(c)) for c in C_COMMENT_FORMS]
    for n, text, want_end in probes:
        mm = rx[n].match(text) if n in rx else None
        out.append(rec("C05/ignore-patterns", f"{n}:{text[:24]!r}", "matches-exactly-the-separator-or-comment", mm is not None and mm.end() == want_end,
                       None if mm is None else mm.end()))
    for n, text in (("WS", "x"), ("_NL", " "), ("COMMENT", "NAME # c"), ("CCOMMENT", "/ * c */"), ("CCOMMENT", "/* never closed")):
        mm = rx[n].match(text) if n in rx else None
        out.append(rec("C05/ignore-patterns", f"{n}:{text!r}", "does-not-match-other-text", mm is None, None if mm is None else mm.end()))
    # every blank / line break / comment opener is matched by an ignored terminal
    for ch in " \t\f\r\n":
        ok = any(re.fullmatch(terms[n].pattern.to_regexp(), ch) for n in ("WS", "_NL"))
        out.append(rec("C05/ignore-coverage", repr(ch), "separator-character-is-ignored", ok))
    return out


# ---------------------------------------------------------------------------------------------
# C08: line counting of the lexer
# ---------------------------------------------------------------------------------------------

def c08_tables(tier):
    """Lark advances its line counter only inside terminals it has classified as 'may contain a newline' (a static test on
    the pattern text).  Every terminal of this grammar that can match text with a line break must be so classified,
    otherwise every later token is recorded on a wrong line."""
    out = []
    p = _parser()
    lx = p.lalr.parser.lexer
    root = getattr(lx, "root_lexer", lx)
    newline_types = set(root.newline_types)
    samples = ["\n", "\r\n", "/* a\n b */", "/*\n*/", '"a\nb"', "'a\nb'", "`a\nb`", "# c\n", "[a\nb]", "/a\nb/", "{a,\nb}", "%a\nb%", "a\nb"]
    for t in sorted(p.lalr.terminals, key=lambda t: t.name):
        try:
            rx = re.compile(t.pattern.to_regexp())
        except re.error:
            continue
        can = [sm for sm in samples if rx.fullmatch(sm)]
        if can:
            out.append(rec("C08/newline-terminals", t.name, "terminal-that-can-span-lines-is-counted-by-the-lexer", t.name in newline_types, can[:2]))
    out.append(rec("C08/newline-terminals", "_NL", "line-break-terminal-is-counted", "_NL" in newline_types))
    return out


# ---------------------------------------------------------------------------------------------
# C10: the precedence ladder of the grammar
# ---------------------------------------------------------------------------------------------

LADDER = {
    # rule: list of (callback-or-None for passthrough, [child rule names / terminal classes])
    "or_test": [("or_test", ["or_test", "OR|__ANON", "and_test"]), (None, ["and_test"])],
    "and_test": [("and_test", ["and_test", "AND|__ANON", "comparison"]), (None, ["comparison"])],
    "comparison": [("comparison", ["comparison", "compare_op", "sum"]), (None, ["sum"])],
    "sum": [(None, ["product"]), ("add", ["sum", "PLUS", "product"]), ("sub", ["sum", "MINUS", "product"])],
    "product": [(None, ["unary_expr"]), ("mul", ["product", "STAR", "unary_expr"]), ("div", ["product", "SLASH", "unary_expr"]),
                ("power", ["product", "CIRCUMFLEX", "unary_expr"])],
    "unary_expr": [(None, ["atom"]), ("neg", ["MINUS", "unary_expr"]), (None, ["PLUS", "unary_expr"])],
    "atom": [(None, ["func_call"]), (None, ["value"])],
    "expression": [("expression", ["LPAR", "or_test", "RPAR"])],
    "not_expression": [("not_expression", ["BANG|NOT", "comparison"])],
}


def c10_tables(tier):
    out = []
    rules = LS._rules()
    terms = LS.terminals()
    for name, alts in LADDER.items():
        got = []
        for r in rules.get(name, []):
            syms = []
            for s in r.expansion:
                syms.append(s.name)
            got.append((r.alias or (None if r.options.expand1 and len([x for x in r.expansion if LS._kept(x, r)]) == 1 else name), syms))

        def match(want_syms, syms):
            if len(want_syms) != len(syms):
                return False
            for w, s in zip(want_syms, syms):
                if not any(s == x or (x == "__ANON" and s.startswith("__ANON")) for x in w.split("|")):
                    return False
            return True
        for cb, want_syms in alts:
            hit = [g for g in got if match(want_syms, g[1]) and (g[0] == cb or (cb is None and g[0] is None) or (cb is None and g[0] == name and len(want_syms) > 1))]
            out.append(rec("C10/ladder", f"{name} -> {' '.join(want_syms)}", "alternative-present-at-this-level", bool(hit), got))
        # nothing else at this level
        n_want = len(alts)
        n_got = len(got)
        # OR and || / AND and && / ! and NOT are separate compiled alternatives of one written alternative
        extra = sum(1 for g in got if not any(match(w, g[1]) for _, w in alts))
        out.append(rec("C10/ladder", name, "no-other-alternative-at-this-level", extra == 0, got))
    # operator spellings
    want_ops = {">=", "<", "=*", "==", "=", "!=", "~", "~*", ">", "%", "<=", "IN", "NE", "EQ", "LE", "LT", "GE", "GT", "LIKE"}
    ops = set()
    for r in rules.get("compare_op", []):
        t = terms[r.expansion[0].name]
        ops.add(t.pattern.value)
    out.append(rec("C10/operators", "compare_op", "comparison-operator-spellings", {o.upper() for o in ops} == want_ops, sorted(ops)))
    return out


# ---------------------------------------------------------------------------------------------
# C19: one vocabulary
# ---------------------------------------------------------------------------------------------

def plural(s):
    return s + ("es" if s.endswith("s") else "s")


def c19_tables(tier):
    from mappyfile import tokens as T
    from mappyfile.parser import SYMBOL_ATTRIBUTES
    out = []
    from contracts.transformer_c import keyword_literal
    types = sorted({keyword_literal(sh[0][1]).lower() for sh in LS.shapes("composite_type")})
    names = set(SC.schema_names())
    for t in types:
        out.append(rec("C19/T1", t, "block-type-has-a-schema", t in names))
        out.append(rec("C19/T1", t, "block-type-in-COMPLEX_TYPES", t in T.COMPLEX_TYPES))
        out.append(rec("C19/T1", t, "printer-knows-the-type", t in (T.COMPOSITE_NAMES | T.SINGLETON_COMPOSITE_NAMES)))
        sing = t in T.SINGLETON_COMPOSITE_NAMES
        nested_somewhere = any(t in SC.expanded(p_)["properties"] or plural(t) in SC.expanded(p_)["properties"] for p_ in SC.object_types())
        if nested_somewhere:      # MAP is only ever a root
            out.append(rec("C19/T2", t, "plural-key-iff-not-singleton", (plural(t) in T.OBJECT_LIST_KEYS) == (not sing), plural(t)))
        # every parent schema agrees
        for parent in SC.object_types():
            props = SC.expanded(parent)["properties"]
            if sing:
                if plural(t) in props and plural(t) in T.OBJECT_LIST_KEYS:
                    out.append(rec("C19/T2-schema", f"{parent}.{plural(t)}", "singleton-type-not-listed-as-array", False))
                if t in props:
                    s = props[t]
                    is_obj = s.get("type") == "object" or any(isinstance(a, dict) and a.get("type") == "object" for a in s.get("allOf", []) + s.get("oneOf", []))
                    out.append(rec("C19/T2-schema", f"{parent}.{t}", "singleton-child-is-an-object-property", is_obj, list(s)[:5]))
            else:
                if plural(t) in props:
                    out.append(rec("C19/T2-schema", f"{parent}.{plural(t)}", "repeatable-child-is-an-array-property", props[plural(t)].get("type") == "array"))
                if t in props and any(isinstance(a, dict) and a.get("type") == "object" for a in [props[t]] + props[t].get("oneOf", []) + props[t].get("allOf", [])):
                    # the schema allows the child as a single nested object although the transformer stores it under the plural key
                    out.append(rec("C19/T2-schema", f"{parent}.{t}", "repeatable-child-not-also-a-single-object-property", False, "schema lists an object under the singular key"))
    # T3: repeated keys are arrays of strings wherever they appear
    for parent in SC.object_types():
        props = SC.expanded(parent)["properties"]
        for k in T.REPEATED_KEYS:
            if k in props:
                s = props[k]
                out.append(rec("C19/T3", f"{parent}.{k}", "repeated-keyword-is-an-array-of-strings", s.get("type") == "array" and s.get("items", {}).get("type") == "string"))
    # T4: every keyword of symbol.json is a SYMBOL attribute for the re-typing rule, or opens a block / is hidden
    sprops = SC.expanded("symbol")["properties"]
    for k in sprops:
        if k.startswith("__"):
            continue
        out.append(rec("C19/T4", k, "symbol-keyword-known-to-the-retyping-rule", k.upper() in SYMBOL_ATTRIBUTES))
    # T6: every declared default is valid for its own keyword
    import jsonschema
    for parent in SC.object_types():
        props = SC.expanded(parent)["properties"]
        for k, s in props.items():
            if isinstance(s, dict) and "default" in s:
                errs = list(jsonschema.Draft4Validator(s).iter_errors(s["default"]))
                out.append(rec("C19/T6", f"{parent}.{k}", "default-valid-for-its-own-keyword", not errs, [e.message[:80] for e in errs][:1]))
    return out


# ---------------------------------------------------------------------------------------------
# C09: version partition / pruning against an independent ideal pruner
# ---------------------------------------------------------------------------------------------

def version_bounds():
    bs = set()

    def walk(x):
        if isinstance(x, dict):
            md = x.get("metadata")
            if isinstance(md, dict):
                for k in ("minVersion", "maxVersion"):
                    if k in md:
                        bs.add(float(md[k]))
            for v in x.values():
                walk(v)
        elif isinstance(x, list):
            for v in x:
                walk(v)
    folder = SC.shared_validator().get_schemas_folder()
    for n in SC.schema_names():
        with open(os.path.join(folder, n + ".json"), encoding="utf-8") as f:
            walk(json.load(f))
    return sorted(bs)


def representative_versions():
    """one version per class of the partition of the real line induced by the bounds (every bound, every open
    interval between neighbours, below the lowest, above the highest): covers EVERY version"""
    bs = version_bounds()
    reps = [bs[0] - 1.0]
    for a, b in zip(bs, bs[1:]):
        reps += [a, (a + b) / 2.0]
    reps += [bs[-1], bs[-1] + 1.0]
    return reps


def ideal_prune(x, v):
    """independent reference: drop every annotated node outside its range wherever it sits; keep the rest"""
    def valid(n):
        md = n.get("metadata") if isinstance(n, dict) else None
        if not isinstance(md, dict):
            return True
        return md.get("minVersion", 0.0) <= v <= md.get("maxVersion", 1000.0)
    if isinstance(x, dict):
        return {k: ideal_prune(c, v) for k, c in x.items() if not (isinstance(c, dict) and not valid(c))}
    if isinstance(x, list):
        return [ideal_prune(c, v) for c in x if not (isinstance(c, dict) and not valid(c))]
    return x


def c09_tables(tier):
    from mappyfile.validator import Validator
    out = []
    reps = representative_versions()
    if tier != "thorough":
        # quick: each bound, one value inside each neighbouring interval at the extremes, and the two outer classes
        bs = version_bounds()
        reps = sorted(set([bs[0] - 1.0, bs[-1] + 1.0] + bs + [(a + b) / 2.0 for a, b in zip(bs, bs[1:])][::2]))
    types = list(SC.object_types())
    for v in reps:
        val = Validator()
        for t in types:
            got = SC.plain(val.get_versioned_schema(v, t))
            want = SC.expanded(t)
            want = dict(want)
            want["properties"] = ideal_prune(want["properties"], v)
            out.append(rec("C09/prune", f"{t}@{v}", "versioned-schema==ideal-prune(properties)", got == want,
                           _first_diff(got, want)))
        # asking about this version changed nothing for the version-less schema
        for t in types[:3]:
            out.append(rec("C09/cache", f"{t}@{v}", "unversioned-entry-untouched", SC.plain(val.get_expanded_schema(t)) == SC.expanded(t)))
    # no pruned property is required
    for t in types:
        s = SC.expanded(t)
        for k in s.get("required", []):
            p = s["properties"].get(k, {})
            out.append(rec("C09/required", f"{t}.{k}", "required-keyword-not-versioned", not (isinstance(p, dict) and "metadata" in p and ("minVersion" in p["metadata"] or "maxVersion" in p["metadata"]))))
    # cache-key injectivity over the actual names and representative versions
    keys = {}
    clash = []
    for n in SC.schema_names():
        for v in [None] + representative_versions():
            k = n if v is None else n + str(v)
            if k in keys and keys[k] != (n, v):
                clash.append((k, keys[k], (n, v)))
            keys[k] = (n, v)
    out.append(rec("C09/cache", "keys", "cache-key-injective(name,version)", not clash, clash[:3]))
    out.extend(c09_raw_annotations())
    return out


def _raw_annotated(node, path, acc):
    if isinstance(node, dict):
        md = node.get("metadata")
        if isinstance(md, dict) and ("minVersion" in md or "maxVersion" in md):
            acc.append((path, md.get("minVersion"), md.get("maxVersion")))
        for k, v in node.items():
            _raw_annotated(v, path + (k,), acc)
    elif isinstance(node, list):
        for i, v in enumerate(node):
            _raw_annotated(v, path + (i,), acc)


def c09_raw_annotations():
    """Every minVersion / maxVersion written in a schema FILE (read here with plain json, not through the repository's
    reference expansion) must still be there, at the same JSON path, in the expanded schema the version filter works on -
    an annotation written next to a "$ref" would be dropped by the expansion and the keyword accepted at every version.
    For keyword-level annotations (path .../properties/<k>) the keyword must moreover be absent from the versioned schema
    just outside its range and present at its bounds."""
    import json as _json
    from mappyfile.validator import Validator
    out = []
    v0 = SC.shared_validator()
    folder = v0.get_schemas_folder()
    n_total = 0
    for name in SC.schema_names():
        raw = _json.load(open(os.path.join(folder, name + ".json"), encoding="utf-8"))
        acc = []
        _raw_annotated(raw, (), acc)
        exp = SC.expanded(name)
        for path, lo, hi in acc:
            n_total += 1
            node = exp
            ok = True
            for k in path:
                try:
                    node = node[k]
                except (KeyError, IndexError, TypeError):
                    ok = False
                    break
            md = node.get("metadata", {}) if ok and isinstance(node, dict) else {}
            ok = ok and isinstance(md, dict) and md.get("minVersion") == lo and md.get("maxVersion") == hi
            out.append(rec("C09/raw", f"{name}:{'/'.join(map(str, path))}", "file-annotation-survives-expansion", ok,
                           f"file says min={lo} max={hi}, expanded schema says {md!r}"))
            if len(path) == 2 and path[0] == "properties" and name in SC.object_types():
                kw = path[1]
                for bound, delta, inside in ((lo, -0.05, False), (lo, 0.0, True), (hi, 0.05, False), (hi, 0.0, True)):
                    if bound is None:
                        continue
                    ver = round(bound + delta, 2)
                    if inside and ((lo is not None and ver < lo) or (hi is not None and ver > hi)):
                        continue
                    props = SC.plain(Validator().get_versioned_schema(ver, name)).get("properties", {})
                    out.append(rec("C09/raw", f"{name}.{kw}@{ver}", "keyword-present-iff-in-file-range", (kw in props) == inside,
                                   f"file range [{lo}, {hi}], version {ver}: keyword {'present' if kw in props else 'absent'}"))
    out.append(rec("C09/raw", "count", "some-file-annotations-found", n_total > 50, n_total))
    return out


def _first_diff(a, b, path=""):
    if type(a) is not type(b):
        return f"{path}: {type(a).__name__} vs {type(b).__name__}"
    if isinstance(a, dict):
        for k in set(a) | set(b):
            if k not in a or k not in b:
                return f"{path}/{k}: only in {'want' if k in b else 'got'}"
            d = _first_diff(a[k], b[k], path + "/" + str(k))
            if d:
                return d
        return ""
    if isinstance(a, list):
        if len(a) != len(b):
            return f"{path}: len {len(a)} vs {len(b)}"
        for i, (x, y) in enumerate(zip(a, b)):
            d = _first_diff(x, y, f"{path}[{i}]")
            if d:
                return d
        return ""
    return "" if a == b else f"{path}: {a!r} vs {b!r}"


# ---------------------------------------------------------------------------------------------
# C12: no shared mutable module state, determinism sources
# ---------------------------------------------------------------------------------------------

def c12_tables(tier):
    import ast
    from pyvc import front
    out = []
    base = os.path.join(front.REPO, "mappyfile")
    forbidden_calls = {"random", "time", "id", "hash", "getpid", "urandom", "uuid4", "now"}
    for fn in sorted(os.listdir(base)):
        if not fn.endswith(".py") or fn in ("cli.py",):
            continue
        with open(os.path.join(base, fn), encoding="utf-8") as f:
            tree = ast.parse(f.read())
        mod_mutables = []
        for node in tree.body:
            if isinstance(node, ast.Assign) and isinstance(node.value, (ast.List, ast.Dict, ast.Set, ast.ListComp, ast.DictComp)):
                mod_mutables += [t.id for t in node.targets if isinstance(t, ast.Name)]
        globals_written = []
        calls = []
        for node in ast.walk(tree):
            if isinstance(node, (ast.Global, ast.Nonlocal)):
                globals_written += node.names
            if isinstance(node, ast.Call):
                f = node.func
                nm = f.id if isinstance(f, ast.Name) else (f.attr if isinstance(f, ast.Attribute) else "")
                if nm in forbidden_calls:
                    calls.append(nm)
        # module-level mutable literals must never be mutated by a function
        mutated = []
        for node in ast.walk(tree):
            if isinstance(node, (ast.FunctionDef,)):
                for sub in ast.walk(node):
                    if isinstance(sub, ast.Subscript) and isinstance(sub.ctx, (ast.Store, ast.Del)) and isinstance(sub.value, ast.Name) and sub.value.id in mod_mutables:
                        mutated.append(sub.value.id)
                    if isinstance(sub, ast.Call) and isinstance(sub.func, ast.Attribute) and isinstance(sub.func.value, ast.Name) \
                            and sub.func.value.id in mod_mutables and sub.func.attr in ("append", "add", "update", "pop", "clear", "extend", "setdefault", "remove"):
                        mutated.append(sub.func.value.id)
        out.append(rec("C12/module-state", fn, "no-global-statement", not globals_written, globals_written))
        out.append(rec("C12/module-state", fn, "module-level-mutables-never-mutated", not mutated, mutated))
        out.append(rec("C12/determinism", fn, "no-time-random-id-hash-calls", not calls, calls))
    # _comments is bound once (the lexer callbacks hold its append): only the slice-clear may touch it
    with open(os.path.join(base, "parser.py"), encoding="utf-8") as f:
        ptree = ast.parse(f.read())
    rebinding = []
    for node in ast.walk(ptree):
        if isinstance(node, ast.FunctionDef) and node.name != "__init__":
            for sub in ast.walk(node):
                if isinstance(sub, ast.Attribute) and sub.attr == "_comments" and isinstance(sub.ctx, ast.Store):
                    rebinding.append(node.name)
    out.append(rec("C12/parser-reuse", "_comments", "comment-buffer-never-rebound-after-construction", not rebinding, rebinding))
    # two workers of the same class share no mutable state: every dict / list / set reachable from a fresh instance's
    # attributes (its caches, buffers, helper objects) is its own object, and classes declare no mutable attribute
    import mappyfile.parser as _p, mappyfile.transformer as _t, mappyfile.pprint as _pp, mappyfile.validator as _v, mappyfile.quoter as _q
    makers = {"Parser": lambda: _p.Parser(include_comments=True), "MapfileToDict": lambda: _t.MapfileToDict(), "MapfileTransformer": lambda: _t.MapfileTransformer(),
              "PrettyPrinter": lambda: _pp.PrettyPrinter(), "Validator": lambda: _v.Validator(), "Quoter": lambda: _q.Quoter()}

    def mutables(obj, depth=0, seen=None):
        seen = seen if seen is not None else set()
        res = []
        attrs = {}
        for klass in type(obj).__mro__:
            if klass.__module__.startswith("mappyfile"):
                attrs.update({k: v for k, v in vars(klass).items() if not callable(v) and not isinstance(v, (classmethod, staticmethod, property)) and not k.startswith("__")})
        attrs.update(getattr(obj, "__dict__", {}))
        for k, v in attrs.items():
            if isinstance(v, (dict, list, set)):
                res.append((k, id(v)))
            elif depth < 1 and type(v).__module__.startswith("mappyfile") and id(v) not in seen:
                seen.add(id(v))
                res += [(f"{k}.{kk}", i) for kk, i in mutables(v, depth + 1, seen)]
        return res
    for name, mk in makers.items():
        oa, ob = mk(), mk()          # both alive while ids are compared
        a, b = mutables(oa), mutables(ob)
        shared = sorted({k for k, i in a} & {k2 for k2, i2 in b if any(i2 == i for kk, i in a if kk == k2)})
        out.append(rec("C12/instances", name, "two-fresh-instances-share-no-mutable-object", not shared, shared))
    return out
