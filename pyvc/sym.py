"""Symbolic scalar values for pyvc.

A ``Sym`` wraps a z3 term of sort Int / Bool / String / Real and overloads the Python
operators the verified subset uses, so that *contract and spec code is ordinary Python* that
runs both on symbolic values (proof) and on concrete values (replay / bounded stand-in).

Python semantics assumed by this encoding (every item is listed in the evidence):
  * ``int`` is mathematical (true in Python), ``float`` is a real number,
  * ``str`` is an SMT-LIB Unicode string; ``lower``/``upper``/``strip``/``str(float)``/``float(str)``/
    ``int(str)`` are uninterpreted functions constrained only by the axioms in ``axioms()`` and by
    ground facts computed by the running interpreter (``ground_refine``),
  * ``s * n`` is the uninterpreted ``py_rep(s, n)`` unless both operands are concrete.
"""
from __future__ import annotations
import z3

INT, BOOL, STR, REAL = "int", "bool", "str", "real"

_SORTS = {INT: z3.IntSort(), BOOL: z3.BoolSort(), STR: z3.StringSort(), REAL: z3.RealSort()}

py_lower = z3.Function("py_lower", z3.StringSort(), z3.StringSort())
py_upper = z3.Function("py_upper", z3.StringSort(), z3.StringSort())
py_strip = z3.Function("py_strip", z3.StringSort(), z3.StringSort())
py_rep = z3.Function("py_rep", z3.StringSort(), z3.IntSort(), z3.StringSort())
py_replace = z3.Function("py_replace", z3.StringSort(), z3.StringSort(), z3.StringSort(), z3.StringSort())
py_float_str = z3.Function("py_float_str", z3.RealSort(), z3.StringSort())
py_str_float = z3.Function("py_str_float", z3.StringSort(), z3.RealSort())
py_str_int = z3.Function("py_str_int", z3.StringSort(), z3.IntSort())
py_strip_chars = z3.Function("py_strip_chars", z3.StringSort(), z3.StringSort(), z3.StringSort())   # s.strip(chars)
py_nwords = z3.Function("py_nwords", z3.StringSort(), z3.IntSort())                                # len(s.split())
py_word = z3.Function("py_word", z3.StringSort(), z3.IntSort(), z3.StringSort())                   # s.split()[i], 0 <= i < len


def _native_word(s, i):
    w = s.split()
    return w[i] if 0 <= i < len(w) else ""      # outside the range the model never reads it (IndexError is raised first)


UF_NATIVE = {
    "py_lower": lambda s: s.lower(),
    "py_upper": lambda s: s.upper(),
    "py_strip": lambda s: s.strip(),
    "py_rep": lambda s, n: s * n,
    "py_replace": lambda s, a, b: s.replace(a, b),
    "py_strip_chars": lambda s, c: s.strip(c),
    "py_nwords": lambda s: len(s.split()),
    "py_word": _native_word,
}


class SymBoolError(Exception):
    """A symbolic boolean was used where Python needs a concrete truth value."""


class Sym:
    __slots__ = ("sort", "t")

    def __init__(self, sort, t):
        self.sort = sort
        self.t = t

    def __repr__(self):
        return f"Sym<{self.sort}:{self.t}>"

    def __hash__(self):
        return id(self)

    def __bool__(self):
        raise SymBoolError(f"symbolic value used as a concrete boolean: {self!r}")

    # arithmetic / concatenation ------------------------------------------------------------
    def __add__(self, o):
        return add(self, o)

    def __radd__(self, o):
        return add(o, self)

    def __sub__(self, o):
        return arith("-", self, o)

    def __rsub__(self, o):
        return arith("-", o, self)

    def __mul__(self, o):
        return mul(self, o)

    def __rmul__(self, o):
        return mul(o, self)

    def __neg__(self):
        return arith("-", 0, self)

    def __floordiv__(self, o):
        return floordiv(self, o)

    def __rfloordiv__(self, o):
        return floordiv(o, self)

    def __mod__(self, o):
        return mod(self, o)

    def __truediv__(self, o):
        return truediv(self, o)

    def __rtruediv__(self, o):
        return truediv(o, self)

    # comparisons ------------------------------------------------------------------------------
    def __eq__(self, o):
        return eq(self, o)

    def __ne__(self, o):
        return not_(eq(self, o))

    def __lt__(self, o):
        return cmp("<", self, o)

    def __le__(self, o):
        return cmp("<=", self, o)

    def __gt__(self, o):
        return cmp(">", self, o)

    def __ge__(self, o):
        return cmp(">=", self, o)

    # boolean connectives as operators (spec code uses & | ~ on symbolic booleans) ------------
    def __and__(self, o):
        return and_(self, o)

    def __rand__(self, o):
        return and_(o, self)

    def __or__(self, o):
        return or_(self, o)

    def __ror__(self, o):
        return or_(o, self)

    def __invert__(self):
        return not_(self)

    # str API -----------------------------------------------------------------------------------
    def lower(self):
        return lower(self)

    def upper(self):
        return upper(self)

    def strip(self):
        return strip(self)

    def startswith(self, p):
        return startswith(self, p)

    def endswith(self, p):
        return endswith(self, p)

    def replace(self, a, b):
        return replace_all(self, a, b)

    def __getitem__(self, idx):
        return getitem(self, idx)


def is_sym(x):
    return isinstance(x, Sym)


def sort_of(x):
    if isinstance(x, Sym):
        return x.sort
    if isinstance(x, bool):
        return BOOL
    if isinstance(x, int):
        return INT
    if isinstance(x, float):
        return REAL
    if isinstance(x, str):
        return STR
    return None


def term(x, want=None):
    """z3 term for a Sym or a Python constant."""
    if isinstance(x, Sym):
        t = x.t
        if want == REAL and x.sort == INT:
            return z3.ToReal(t)
        if want == INT and x.sort == BOOL:
            return z3.If(t, z3.IntVal(1), z3.IntVal(0))
        return t
    if isinstance(x, bool):
        if want == INT:
            return z3.IntVal(int(x))
        return z3.BoolVal(x)
    if isinstance(x, int):
        if want == REAL:
            return z3.RealVal(x)
        return z3.IntVal(x)
    if isinstance(x, float):
        return z3.RealVal(repr(x))
    if isinstance(x, str):
        return z3.StringVal(x)
    raise TypeError(f"no z3 term for {x!r}")


def fresh(sort, name):
    return Sym(sort, z3.Const(name, _SORTS[sort]))


def _num_sort(a, b):
    sa, sb = sort_of(a), sort_of(b)
    if REAL in (sa, sb):
        return REAL
    return INT


class SymTypeError(TypeError):
    pass


def add(a, b):
    if not is_sym(a) and not is_sym(b):
        return a + b
    sa, sb = sort_of(a), sort_of(b)
    if sa == STR and sb == STR:
        if not is_sym(a) and a == "":
            return b
        if not is_sym(b) and b == "":
            return a
        return Sym(STR, z3.Concat(term(a), term(b)))
    if sa in (INT, REAL, BOOL) and sb in (INT, REAL, BOOL):
        s = _num_sort(a, b)
        return Sym(s, term(a, s if s == REAL else INT) + term(b, s if s == REAL else INT))
    raise SymTypeError(f"unsupported operand type(s) for +: {sa} and {sb}")


def arith(op, a, b):
    if not is_sym(a) and not is_sym(b):
        return {"-": lambda: a - b}[op]()
    sa, sb = sort_of(a), sort_of(b)
    if sa not in (INT, REAL, BOOL) or sb not in (INT, REAL, BOOL):
        raise SymTypeError(f"unsupported operand type(s) for {op}: {sa} and {sb}")
    s = _num_sort(a, b)
    w = s if s == REAL else INT
    return Sym(s, term(a, w) - term(b, w))


def mul(a, b):
    if not is_sym(a) and not is_sym(b):
        return a * b
    sa, sb = sort_of(a), sort_of(b)
    if sa == STR and sb in (INT, BOOL):
        return rep(a, b)
    if sb == STR and sa in (INT, BOOL):
        return rep(b, a)
    if sa in (INT, REAL, BOOL) and sb in (INT, REAL, BOOL):
        s = _num_sort(a, b)
        w = s if s == REAL else INT
        return Sym(s, term(a, w) * term(b, w))
    raise SymTypeError(f"unsupported operand type(s) for *: {sa} and {sb}")


def rep(s, n):
    """Python's ``s * n`` for a string s."""
    if not is_sym(s) and not is_sym(n):
        return s * n
    if not is_sym(n):
        if n <= 0:
            return ""
        if n == 1:
            return s
    if not is_sym(s) and s == "":
        return ""
    return Sym(STR, py_rep(term(s), term(n, INT)))


def floordiv(a, b):
    if not is_sym(a) and not is_sym(b):
        return a // b
    if sort_of(a) in (INT, BOOL) and sort_of(b) in (INT, BOOL):
        # z3 div is Euclidean; Python floors. They agree for positive divisors.
        ta, tb = term(a, INT), term(b, INT)
        q = ta / tb
        r = ta - q * tb
        return Sym(INT, z3.If(tb > 0, q, z3.If(r == 0, q, q - 1)))
    raise SymTypeError("floordiv on non-integers is not modelled")


def mod(a, b):
    if not is_sym(a) and not is_sym(b):
        return a % b
    if sort_of(a) in (INT, BOOL) and sort_of(b) in (INT, BOOL):
        q = floordiv(a, b)
        return arith("-", a, mul(q, b))
    raise SymTypeError("% on non-integers is not modelled")


def truediv(a, b):
    if not is_sym(a) and not is_sym(b):
        return a / b
    return Sym(REAL, term(a, REAL) / term(b, REAL))


def to_int(x):
    """Python's int(x) for a number (truncation toward zero)."""
    if not is_sym(x):
        return int(x)
    if x.sort == INT:
        return x
    if x.sort == BOOL:
        return Sym(INT, term(x, INT))
    if x.sort == REAL:
        t = x.t
        return Sym(INT, z3.If(t >= 0, z3.ToInt(t), -z3.ToInt(-t)))
    if x.sort == STR:
        return Sym(INT, py_str_int(x.t))
    raise SymTypeError("int() of " + x.sort)


def to_float(x):
    if not is_sym(x):
        return float(x)
    if x.sort == REAL:
        return x
    if x.sort in (INT, BOOL):
        return Sym(REAL, term(x, REAL) if x.sort == INT else z3.ToReal(term(x, INT)))
    if x.sort == STR:
        return Sym(REAL, py_str_float(x.t))
    raise SymTypeError("float() of " + x.sort)


def eq(a, b):
    if not is_sym(a) and not is_sym(b):
        return a == b
    sa, sb = sort_of(a), sort_of(b)
    if sa is None or sb is None:
        return False  # a scalar never equals None / a container
    if sa == STR or sb == STR:
        if sa != sb:
            return False
        return _simp_bool(term(a) == term(b))
    if sa == BOOL and sb == BOOL:
        return _simp_bool(term(a) == term(b))
    s = _num_sort(a, b)
    w = s if s == REAL else INT
    return _simp_bool(term(a, w) == term(b, w))


def cmp(op, a, b):
    if not is_sym(a) and not is_sym(b):
        return {"<": a < b, "<=": a <= b, ">": a > b, ">=": a >= b}[op]
    sa, sb = sort_of(a), sort_of(b)
    if sa == STR and sb == STR:
        ta, tb = term(a), term(b)
        r = {"<": ta < tb, "<=": ta <= tb, ">": tb < ta, ">=": tb <= ta}[op]
        return Sym(BOOL, r)
    if sa in (INT, REAL, BOOL) and sb in (INT, REAL, BOOL):
        s = _num_sort(a, b)
        w = s if s == REAL else INT
        ta, tb = term(a, w), term(b, w)
        return _simp_bool({"<": ta < tb, "<=": ta <= tb, ">": ta > tb, ">=": ta >= tb}[op])
    raise SymTypeError(f"'{op}' not supported between {sa} and {sb}")


def _simp_bool(t):
    t = z3.simplify(t)
    if z3.is_true(t):
        return True
    if z3.is_false(t):
        return False
    return Sym(BOOL, t)


def truthy(x):
    """Python truth value of a scalar as bool / Sym bool."""
    if is_sym(x):
        if x.sort == BOOL:
            return x
        if x.sort == INT:
            return _simp_bool(x.t != 0)
        if x.sort == REAL:
            return _simp_bool(x.t != 0)
        if x.sort == STR:
            return _simp_bool(z3.Length(x.t) > 0)
    return bool(x)


def not_(a):
    a = truthy(a)
    if not is_sym(a):
        return not a
    return _simp_bool(z3.Not(a.t))


def and_(*xs):
    ts = []
    for x in xs:
        x = truthy(x)
        if not is_sym(x):
            if not x:
                return False
            continue
        ts.append(x.t)
    if not ts:
        return True
    return _simp_bool(z3.And(*ts))


def or_(*xs):
    ts = []
    for x in xs:
        x = truthy(x)
        if not is_sym(x):
            if x:
                return True
            continue
        ts.append(x.t)
    if not ts:
        return False
    return _simp_bool(z3.Or(*ts))


def implies(a, b):
    return or_(not_(a), b)


def ite(c, a, b):
    c = truthy(c)
    if not is_sym(c):
        return a if c else b
    sa, sb = sort_of(a), sort_of(b)
    if sa is None or sb is None:
        raise SymTypeError("ite over non-scalars")
    if sa == sb:
        return Sym(sa, z3.If(c.t, term(a), term(b)))
    if sa in (INT, REAL) and sb in (INT, REAL):
        return Sym(REAL, z3.If(c.t, term(a, REAL), term(b, REAL)))
    raise SymTypeError(f"ite branches of different sorts {sa}/{sb}")


def length(x):
    if not is_sym(x):
        return len(x)
    if x.sort != STR:
        raise SymTypeError("len() of " + x.sort)
    return Sym(INT, z3.Length(x.t))


def lower(x):
    if not is_sym(x):
        return x.lower()
    return Sym(STR, py_lower(x.t))


def upper(x):
    if not is_sym(x):
        return x.upper()
    return Sym(STR, py_upper(x.t))


def strip(x):
    if not is_sym(x):
        return x.strip()
    return Sym(STR, py_strip(x.t))


def strip_chars(x, chars):
    if not is_sym(x):
        return x.strip(chars)
    return Sym(STR, py_strip_chars(x.t, term(chars)))


def startswith(x, p):
    if not is_sym(x) and not is_sym(p):
        return x.startswith(p)
    if isinstance(p, tuple):
        return or_(*[startswith(x, q) for q in p])
    return _simp_bool(z3.PrefixOf(term(p), term(x)))


def endswith(x, p):
    if not is_sym(x) and not is_sym(p):
        return x.endswith(p)
    if isinstance(p, tuple):
        return or_(*[endswith(x, q) for q in p])
    return _simp_bool(z3.SuffixOf(term(p), term(x)))


def contains(hay, needle):
    """needle in hay, for strings."""
    if not is_sym(hay) and not is_sym(needle):
        return needle in hay
    return _simp_bool(z3.Contains(term(hay), term(needle)))


_keep = []


def replace_all(x, a, b):
    if not is_sym(x) and not is_sym(a) and not is_sym(b):
        return x.replace(a, b)
    # str.replace is an uninterpreted py_replace for z3 (whose sequence solver answers "unknown" as soon as
    # str.replace_all occurs) constrained by axioms_for + ground refinement; the cvc5 fallback reads it as
    # SMT-LIB str.replace_all (equal to Python's replace for a non-empty pattern).
    return Sym(STR, py_replace(term(x), term(a), term(b)))


def _norm_index(i, n):
    """Python slice-bound normalisation of i against length n (both may be symbolic)."""
    if not is_sym(i) and not is_sym(n):
        if i < 0:
            return max(n + i, 0)
        return min(i, n)
    ti, tn = term(i, INT), term(n, INT)
    return Sym(INT, z3.If(ti < 0, z3.If(tn + ti < 0, z3.IntVal(0), tn + ti), z3.If(ti > tn, tn, ti)))


def getitem(x, idx):
    """x[idx] for a symbolic string (index errors are the engine's business)."""
    n = length(x)
    if isinstance(idx, slice):
        if idx.step not in (None, 1):
            raise SymTypeError("slice steps are not modelled")
        lo = 0 if idx.start is None else _norm_index(idx.start, n)
        hi = n if idx.stop is None else _norm_index(idx.stop, n)
        ln = arith("-", hi, lo)
        tl = term(ln, INT)
        return Sym(STR, z3.SubString(term(x), term(lo, INT), z3.If(tl < 0, z3.IntVal(0), tl)))
    i = idx
    if not is_sym(i) and i < 0:
        i = add(n, i)
    elif is_sym(i):
        i = ite(cmp("<", i, 0), add(n, i), i)
    return Sym(STR, z3.SubString(term(x), term(i, INT), z3.IntVal(1)))


def to_str(x):
    """Python's str(x) / format(x) for scalars."""
    if not is_sym(x):
        if isinstance(x, float):
            return repr(x)
        return str(x)
    if x.sort == STR:
        return x
    if x.sort == INT:
        t = x.t
        return Sym(STR, z3.If(t >= 0, z3.IntToStr(t), z3.Concat(z3.StringVal("-"), z3.IntToStr(-t))))
    if x.sort == BOOL:
        return Sym(STR, z3.If(x.t, z3.StringVal("True"), z3.StringVal("False")))
    if x.sort == REAL:
        return Sym(STR, py_float_str(x.t))
    raise SymTypeError("str() of " + x.sort)


def concat(*xs):
    out = ""
    for x in xs:
        out = add(out, x)
    return out


def join(sep, xs):
    out = ""
    first = True
    for x in xs:
        if sort_of(x) != STR:
            raise SymTypeError("sequence item: expected str instance")
        if not first:
            out = add(out, sep)
        out = add(out, x)
        first = False
    return out


def max2(a, b):
    if not is_sym(a) and not is_sym(b):
        return max(a, b)
    # Python's max returns the first maximal element
    return ite(cmp(">", b, a), b, a)


def min2(a, b):
    if not is_sym(a) and not is_sym(b):
        return min(a, b)
    return ite(cmp("<", b, a), b, a)


def in_const_set(x, consts):
    """x in <finite collection of Python constants>."""
    if not is_sym(x):
        return x in consts
    return or_(*[eq(x, c) for c in consts if sort_of(c) == x.sort or (sort_of(c) in (INT, REAL, BOOL) and x.sort in (INT, REAL, BOOL))])


# ---------------------------------------------------------------------------------------------
# Axioms for the uninterpreted string functions, instantiated on the ground terms of a query.
# ---------------------------------------------------------------------------------------------

def _collect_apps(t, names, acc, seen):
    if t.get_id() in seen:
        return
    seen.add(t.get_id())
    if z3.is_app(t):
        if t.decl().name() in names:
            acc.append(t)
        for c in t.children():
            _collect_apps(c, names, acc, seen)
    elif z3.is_quantifier(t):
        _collect_apps(t.body(), names, acc, seen)


WS_CHARS = " \t\n\r\x0b\x0c"
DELIMS = "()[]{}/'\"# "


def axioms_for(formulas):
    """Ground instances of the UF axioms over the terms occurring in ``formulas``.
    All are true facts about CPython str for every string (the length-preservation of lower/upper is
    *not* assumed: it is false for e.g. U+0130)."""
    apps, seen = [], set()
    for f in formulas:
        _collect_apps(f, {"py_lower", "py_upper", "py_strip", "py_rep", "py_replace", "py_float_str", "py_nwords", "py_strip_chars"}, apps, seen)
    out = []
    done = set()
    # constant ASCII prefixes / suffixes tested on x carry over to lower(x) / upper(x)
    # (case mapping is a character-wise homomorphism on ASCII text)
    fixes, seen2 = [], set()
    for f in formulas:
        _collect_apps(f, {"str.prefixof", "str.suffixof"}, fixes, seen2)
    casemaps = [a for a in apps if a.decl().name() in ("py_lower", "py_upper")]
    for fx in fixes:
        c, x = fx.arg(0), fx.arg(1)
        if not z3.is_string_value(c):
            continue
        cs = c.as_string()
        if not cs or not cs.isascii() or "\\" in cs:
            continue
        for a in casemaps:
            if a.arg(0).eq(x):
                img = cs.lower() if a.decl().name() == "py_lower" else cs.upper()
                mk = z3.PrefixOf if fx.decl().name() == "str.prefixof" else z3.SuffixOf
                out.append(z3.Implies(fx, mk(z3.StringVal(img), a)))
    for a in casemaps:
        img = (lambda c: c.lower()) if a.decl().name() == "py_lower" else (lambda c: c.upper())
        for cond, c in _const_ends(a.arg(0), suffix=True):
            out.append(z3.Implies(cond, z3.SuffixOf(z3.StringVal(img(c)), a)))
        for cond, c in _const_ends(a.arg(0), suffix=False):
            out.append(z3.Implies(cond, z3.PrefixOf(z3.StringVal(img(c)), a)))
    for a in apps:
        if a.get_id() in done:
            continue
        done.add(a.get_id())
        n = a.decl().name()
        if n in ("py_lower", "py_upper"):
            # case mapping works character by character and never creates, removes or moves an ASCII
            # delimiter: the first / last character of the image is a given delimiter iff it is of the argument
            x = a.arg(0)
            for ch in DELIMS:
                c = z3.StringVal(ch)
                out.append(z3.PrefixOf(c, a) == z3.PrefixOf(c, x))
                out.append(z3.SuffixOf(c, a) == z3.SuffixOf(c, x))
        if n == "py_lower":
            out.append(z3.Implies(z3.InRe(a.arg(0), _NO_UPPER), a == a.arg(0)))   # ASCII text without capitals is its own lower()
        if n == "py_upper":
            out.append(z3.Implies(z3.InRe(a.arg(0), _NO_LOWER), a == a.arg(0)))
        if n == "py_lower":
            out.append(py_lower(a) == a)                      # lower is idempotent
            # lower∘upper∘lower = lower holds for ASCII text only (false for 126 code points, e.g. 'ß' -> 'SS' -> 'ss', final sigma):
            # checked by enumeration of every code point; an unguarded version of this axiom once made path conditions
            # inconsistent with the ground facts of the refinement (vacuous proofs) - see DESIGN.md §10.3
            out.append(z3.Implies(z3.InRe(a.arg(0), _ASCII), py_lower(py_upper(py_lower(a.arg(0)))) == a))
            out.append(z3.Implies(a.arg(0) == z3.StringVal(""), a == z3.StringVal("")))
            out.append((z3.Length(a) == 0) == (z3.Length(a.arg(0)) == 0))
        elif n == "py_upper":
            out.append(py_upper(a) == a)                      # upper is idempotent
            out.append((z3.Length(a) == 0) == (z3.Length(a.arg(0)) == 0))
        elif n == "py_strip":
            x = a.arg(0)
            out.append(py_strip(a) == a)
            out.append(z3.Length(a) <= z3.Length(x))
            out.append(z3.Contains(x, a))
            # first / last character of the stripped string is not whitespace; if x has no leading or
            # trailing whitespace it is unchanged
            for ch in WS_CHARS:
                c = z3.StringVal(ch)
                out.append(z3.Not(z3.PrefixOf(c, a)))
                out.append(z3.Not(z3.SuffixOf(c, a)))
            nolead = z3.And(*[z3.Not(z3.PrefixOf(z3.StringVal(ch), x)) for ch in WS_CHARS + "\x1c\x1d\x1e\x1f\x85\xa0"])
            notrail = z3.And(*[z3.Not(z3.SuffixOf(z3.StringVal(ch), x)) for ch in WS_CHARS + "\x1c\x1d\x1e\x1f\x85\xa0"])
            out.append(z3.Implies(z3.And(nolead, notrail, _ascii_ends(x)), a == x))
        elif n == "py_nwords":
            out.append(a >= 0)                                # a length
        elif n == "py_strip_chars":
            x = a.arg(0)
            out.append(z3.Length(a) <= z3.Length(x))
            out.append(z3.Contains(x, a))
            out.append(py_strip_chars(a, a.arg(1)) == a)      # idempotent for the same character set
        elif n == "py_float_str":
            # repr of a float: non-empty, no blanks, begins with a digit, '-', 'i' (inf) or 'n' (nan), ends with a
            # digit or a letter of inf/nan: in particular never starts or ends with a delimiter
            out.append(z3.Length(a) > 0)
            out.append(py_strip(a) == a)
            for ch in DELIMS:
                out.append(z3.Not(z3.PrefixOf(z3.StringVal(ch), a)))
                out.append(z3.Not(z3.SuffixOf(z3.StringVal(ch), a)))
        elif n == "py_replace":
            x, pat, new = a.arg(0), a.arg(1), a.arg(2)
            # a pattern that does not occur is not replaced
            out.append(z3.Implies(z3.Not(z3.Contains(x, pat)), a == x))
            out.append(z3.Implies(pat == new, a == x))
            if z3.is_string_value(pat):
                # if the pattern occurs, each of its characters occurs
                for ch in set(pat.as_string()) if len(pat.as_string()) <= 4 and "\\u" not in pat.as_string() else ():
                    out.append(z3.Implies(z3.Contains(x, pat), z3.Contains(x, z3.StringVal(ch))))
        elif n == "py_rep":
            s, k = a.arg(0), a.arg(1)
            out.append(z3.Implies(k <= 0, a == z3.StringVal("")))
            out.append(z3.Implies(k == 1, a == s))
            out.append(z3.Implies(s == z3.StringVal(""), a == z3.StringVal("")))
            out.append(z3.Implies(k >= 0, z3.Length(a) == z3.Length(s) * k))
    return out


_ASCII = z3.Star(z3.Range("\x00", "\x7f"))
_NO_UPPER = z3.Star(z3.Union(z3.Range(" ", "@"), z3.Range("[", "~")))
_NO_LOWER = z3.Star(z3.Union(z3.Range(" ", "`"), z3.Range("{", "~")))


def _const_ends(x, suffix, depth=0):
    """[(condition, constant)]: under the condition, the term x ends (starts) with the ASCII constant"""
    if depth > 4:
        return []
    if z3.is_string_value(x):
        c = x.as_string()
        return [(z3.BoolVal(True), c)] if c and c.isascii() and "\\" not in c else []
    if z3.is_app(x):
        k = x.decl().kind()
        if k == z3.Z3_OP_SEQ_CONCAT and x.num_args() >= 1:
            return _const_ends(x.arg(x.num_args() - 1 if suffix else 0), suffix, depth + 1)
        if k == z3.Z3_OP_ITE:
            c = x.arg(0)
            return [(z3.And(c, cc), v) for cc, v in _const_ends(x.arg(1), suffix, depth + 1)] + \
                   [(z3.And(z3.Not(c), cc), v) for cc, v in _const_ends(x.arg(2), suffix, depth + 1)]
        if x.decl().name() in ("py_lower", "py_upper"):
            f = (lambda c: c.lower()) if x.decl().name() == "py_lower" else (lambda c: c.upper())
            return [(cc, f(v)) for cc, v in _const_ends(x.arg(0), suffix, depth + 1)]
    return []


def _ascii_ends(x):
    """first and last characters of x are below U+0080 (or x is empty) — under this guard 'no ASCII
    whitespace at either end' really implies strip(x) == x (Unicode has further whitespace)."""
    n = z3.Length(x)
    first = z3.SubString(x, 0, 1)
    last = z3.SubString(x, n - 1, 1)
    hi = z3.StringVal("\x7f")
    return z3.Or(n == 0, z3.And(first <= hi, last <= hi))


def selftest_axioms():
    """The string axioms above are claims about CPython.  The character-wise ones are checked here over EVERY code point, the
    others on a fixed family of strings; returns the list of violated claims (must be empty).  Run by every check."""
    bad = []
    for cp in range(0x110000):
        if 0xD800 <= cp <= 0xDFFF:
            continue
        c = chr(cp)
        lo, up = c.lower(), c.upper()
        if lo.lower() != lo:
            bad.append(("lower-idempotent", hex(cp)))
        if up.upper() != up:
            bad.append(("upper-idempotent", hex(cp)))
        if cp < 128 and lo.upper().lower() != lo:
            bad.append(("lower-upper-lower(ascii)", hex(cp)))
        if (len(lo) == 0) != (len(c) == 0) or (len(up) == 0) != (len(c) == 0):
            bad.append(("empty-iff-empty", hex(cp)))
        if lo[0] in DELIMS and lo[0] != c or up[0] in DELIMS and up[0] != c or lo[-1] in DELIMS and lo[-1] != c or up[-1] in DELIMS and up[-1] != c:
            bad.append(("delimiters-not-created", hex(cp)))
        if c in DELIMS and (lo != c or up != c):
            bad.append(("delimiters-not-changed", hex(cp)))
    import re as _re
    for s in ["", "abc", "a b", " a ", "\ta\n", "x\x1cy", "\x85a\xa0", "ß", "ΑΣ", "(a)", "'q'", '"q"', "{a,b}", "/r/i", "#c", "A_B-1", "@", "[x]"]:
        st = s.strip()
        if st.strip() != st or len(st) > len(s) or st not in s:
            bad.append(("strip", repr(s)))
        if st and (st[0] in WS_CHARS or st[-1] in WS_CHARS):
            bad.append(("strip-ends", repr(s)))
        if _re.fullmatch(r"[ -@\[-~]*", s) and s.lower() != s:
            bad.append(("no-upper-is-own-lower", repr(s)))
        if _re.fullmatch(r"[ -`{-~]*", s) and s.upper() != s:
            bad.append(("no-lower-is-own-upper", repr(s)))
        for ch in ("'", '"', "'\"", "ab"):
            sc = s.strip(ch)
            if len(sc) > len(s) or sc not in s or sc.strip(ch) != sc:
                bad.append(("strip-chars", repr(s)))
        if len(s.split()) < 0 or (s.split("#")[0] != (s[:s.index("#")] if "#" in s else s)):
            bad.append(("split", repr(s)))
        for k in (-1, 0, 1, 3):
            if len(s * k) != len(s) * max(k, 0):
                bad.append(("rep-length", repr(s)))
        for pat, new in (("a", "b"), ("zz", "y"), ("'", "\\'"), ("a", "a")):
            r = s.replace(pat, new)
            if pat not in s and r != s or pat == new and r != s:
                bad.append(("replace", repr(s)))
    for f in (0.0, -0.0, 1.5, -2.25, 1e-05, 1e16, 1e22, 5e-324, 1.7976931348623157e308, float("inf"), float("-inf"), float("nan")):
        t = str(f)
        if not t or t.strip() != t or t[0] in DELIMS or t[-1] in DELIMS:
            bad.append(("float-str", t))
    return bad
