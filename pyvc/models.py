"""Models of the built-ins the verified subset uses (the *assumed contracts* of CPython).

Every function here encodes what CPython does for the operand kinds that occur in the functions
under contract; anything else raises OutOfReach.  Concrete operands are always computed natively.
"""
from __future__ import annotations
import builtins
import inspect
import numbers
import string as _string
import types
from collections import OrderedDict

import z3

from . import sym as S
from .sym import Sym, is_sym
from .engine import (MDict, TokenM, SuperProxy, Closure, PyRaise, OutOfReach, _contains_symbolic, Interp)
from . import front


class BoundModel:
    """A modelled bound method: calling it runs ``fn(interp, obj, *args)``."""

    def __init__(self, fn, obj, name=""):
        self.fn = fn
        self.obj = obj
        self.name = name

    def __call__(self, interp, *args, **kwargs):
        return self.fn(interp, self.obj, *args, **kwargs)


class FileModel:
    """Ghost file object: ``read()`` returns the ghost content."""

    def __init__(self, content):
        self.content = content

    def read(self):
        return self.content


def _token_class():
    from lark.lexer import Token
    return Token


def _mappy_dict_classes():
    from mappyfile.ordereddict import DefaultOrderedDict, CaseInsensitiveOrderedDict
    return DefaultOrderedDict, CaseInsensitiveOrderedDict


# ---------------------------------------------------------------------------------------------
# truth, equality, identity, membership, iteration, str()
# ---------------------------------------------------------------------------------------------

def py_truth(I, v):
    from .absx import AbsSeqList, AbsColl, AbsMap
    if isinstance(v, AbsSeqList):
        if v.head or v.tail:
            return True
        v = v.middle
    if isinstance(v, AbsMap):
        raise OutOfReach("truth value of a filtered comprehension over an abstract collection")
    if isinstance(v, AbsColl):
        if v.info.get("truthy"):
            return True
        if "length" in v.info:
            return S.cmp(">", v.info["length"], 0)
        raise OutOfReach("truth value of an abstract collection without a length ghost")
    if is_sym(v):
        return S.truthy(v)
    if isinstance(v, MDict):
        return len(v.entries) > 0
    if isinstance(v, TokenM):
        return S.truthy(S.not_(S.eq(v.text, "")))
    return bool(v)


def py_is(a, b):
    if is_sym(a) or is_sym(b):
        if a is b:
            return True
        if a is None or b is None:
            return False
        # `x is True` / `x is False` on a symbolic bool: identity with the singleton equals equality
        if isinstance(a, bool) or isinstance(b, bool):
            sa, sb = S.sort_of(a), S.sort_of(b)
            if sa == S.BOOL and sb == S.BOOL:
                return S.eq(a, b)
            return False
        raise OutOfReach("identity test on symbolic values")
    return a is b


def py_eq(I, a, b):
    if isinstance(a, TokenM):
        a = a.text
    if isinstance(b, TokenM):
        b = b.text
    if is_sym(a) or is_sym(b):
        if a is None or b is None or isinstance(a, (list, tuple, dict, MDict, set, frozenset)) or \
                isinstance(b, (list, tuple, dict, MDict, set, frozenset)):
            return False
        return S.eq(a, b)
    if isinstance(a, (list, tuple)) and isinstance(b, (list, tuple)) and (_contains_symbolic(a) or _contains_symbolic(b)):
        if type(a) is not type(b) and not (isinstance(a, list) and isinstance(b, list)) and not (isinstance(a, tuple) and isinstance(b, tuple)):
            return False
        if len(a) != len(b):
            return False
        return S.and_(*[py_eq(I, x, y) for x, y in zip(a, b)])
    if isinstance(a, MDict) or isinstance(b, MDict):
        if a is b:
            return True
        if isinstance(a, MDict) and isinstance(b, MDict):
            if len(a.entries) != len(b.entries):
                # equal dicts have equally many entries (keys inside one MDict are pairwise distinct)
                return False
            raise OutOfReach("== between two modelled dicts")
        if isinstance(a, (dict, MDict)) and isinstance(b, (dict, MDict)):
            la = len(a.entries) if isinstance(a, MDict) else len(a)
            lb = len(b.entries) if isinstance(b, MDict) else len(b)
            if la != lb:
                return False
            raise OutOfReach("== between a modelled dict and a dict")
        return False
    return a == b


def py_in(I, x, coll):
    if isinstance(coll, TokenM):
        coll = coll.text
    if isinstance(x, TokenM):
        x = x.text
    if isinstance(coll, (str, Sym)):
        if S.sort_of(x) != S.STR:
            raise PyRaise(TypeError, ("'in <string>' requires string as left operand",), "in")
        return S.contains(coll, x)
    from .absx import AbsColl
    if isinstance(coll, AbsColl):
        owner = coll.info.get("owner")
        if isinstance(owner, MDict) and coll.info.get("view") == "keys":
            return mdict_contains(I, owner, x)
        # membership in a collection of unknown content: an unconstrained boolean
        return I.ctx.fresh(S.BOOL, "member")
    if isinstance(coll, MDict):
        return mdict_contains(I, coll, x)
    if isinstance(coll, set) and sym_members(coll):
        return S.or_(*[py_eq(I, x, y) for y in list(coll) + sym_members(coll)])
    if isinstance(coll, (dict, set, frozenset)) and not is_sym(x):
        try:
            return x in coll
        except TypeError as ex:
            raise PyRaise(TypeError, ex.args, "in")
    if isinstance(coll, (dict, set, frozenset, list, tuple, KeysView)):
        items = list(coll.keys()) if isinstance(coll, dict) else list(coll)
        return S.or_(*[py_eq(I, x, y) for y in items])
    if isinstance(coll, (types.GeneratorType,)):
        return S.or_(*[py_eq(I, x, y) for y in coll])
    if is_sym(x):
        raise OutOfReach(f"membership of a symbolic value in {type(coll).__name__}")
    try:
        return x in coll
    except TypeError as ex:
        raise PyRaise(TypeError, ex.args, "in")


class KeysView(list):
    pass


def py_iter(I, it):
    from .absx import AbsColl, AbsSeqList
    if isinstance(it, AbsSeqList):
        if not it.head and not it.tail:
            return py_iter(I, it.middle)
        raise OutOfReach("iteration over a list with an abstract run")
    if isinstance(it, AbsColl):
        raise OutOfReach(f"iteration over the abstract collection {it.name} without a loop contract")
    if isinstance(it, MDict):
        if it.tail is not None:
            raise OutOfReach("iteration over a dict with an abstract tail without a loop contract")
        return [k for k, _ in it.entries]
    if is_sym(it):
        if it.sort == S.STR:
            raise OutOfReach("iteration over a symbolic string")
        raise PyRaise(TypeError, (f"'{it.sort}' object is not iterable",), "iter")
    if isinstance(it, TokenM):
        raise OutOfReach("iteration over a token's characters")
    if it is None or isinstance(it, (int, float)):
        raise PyRaise(TypeError, (f"'{type(it).__name__}' object is not iterable",), "iter")
    if isinstance(it, list):
        return list(it)   # snapshot is wrong for mutation-during-iteration; the subset never does that on lists
    return it


def py_str(I, v):
    if isinstance(v, TokenM):
        return v.text
    if is_sym(v):
        return S.to_str(v)
    if isinstance(v, (MDict, Closure)):
        raise OutOfReach("str() of a modelled object")
    if isinstance(v, (list, tuple, dict)) and _contains_symbolic(v):
        raise OutOfReach("str() of a container with symbolic members")
    return str(v)


def percent_format(I, tmpl, arg):
    args = arg if isinstance(arg, tuple) else (arg,)
    if tmpl.count("%s") == len(args) and tmpl.count("%") == len(args):
        parts = tmpl.split("%s")
        out = parts[0]
        for a, p in zip(args, parts[1:]):
            out = S.add(S.add(out, py_str(I, a)), p)
        return out
    if not _contains_symbolic(args):
        return tmpl % arg
    raise OutOfReach("% formatting other than %s")


def as_kwargs(I, d):
    if isinstance(d, MDict):
        out = {}
        for k, v in d.entries:
            if is_sym(k):
                raise OutOfReach("** of a dict with symbolic keys")
            out[k] = v
        return out
    return dict(d)


# ---------------------------------------------------------------------------------------------
# isinstance / type
# ---------------------------------------------------------------------------------------------

_SORT_PYTYPE = {S.STR: str, S.INT: int, S.BOOL: bool, S.REAL: float}


def pytype_of(v):
    from .absx import AbsSeqList
    if isinstance(v, AbsSeqList):
        return v.pytype
    if is_sym(v):
        return _SORT_PYTYPE[v.sort]
    if isinstance(v, MDict):
        return v.pycls
    if isinstance(v, TokenM):
        return _token_class()
    if isinstance(v, PyRaise):
        return v.etype          # an exception bound by ``except ... as ex``
    return type(v)


def m_isinstance(I, v, cls):
    if isinstance(cls, tuple):
        return any(m_isinstance(I, v, c) for c in cls)
    try:
        return issubclass(pytype_of(v), cls)
    except TypeError as ex:
        raise PyRaise(TypeError, ex.args, "isinstance")


def m_type(I, v):
    return pytype_of(v)


# ---------------------------------------------------------------------------------------------
# MDict operations
# ---------------------------------------------------------------------------------------------

def _mfind(I, d: MDict, key):
    """index of the entry whose key equals ``key`` on this path, or None (forks on symbolic equality)."""
    key = d.fold(key)
    for i, (k, _) in enumerate(d.entries):
        c = py_eq(I, k, key)
        if I.ctx.branch(c):
            return i
    if d.tail is not None:
        # any other key may or may not be in the abstract tail
        if not is_sym(key) and key in d.tail.get("absent", ()):
            return None
        lazy = d.tail.get("lazy")
        if lazy is None:
            raise OutOfReach(f"lookup of {key!r} in a dict with an abstract tail")
        for ka in d.tail.get("known_absent", []):
            if I.ctx.branch(py_eq(I, ka, key)):
                return None
        # lazy refinement of an arbitrary dict state: the key is either among the unknown items (with a value
        # supplied by the harness for that key) or it is not
        present = I.ctx.fresh(S.BOOL, "present")
        if I.ctx.branch(present):
            d.entries.append([key, lazy(I.E, key)])
            d.tail.setdefault("materialised", []).append(len(d.entries) - 1)
            return len(d.entries) - 1
        d.tail.setdefault("known_absent", []).append(key)
    return None


def mdict_contains(I, d, key):
    if isinstance(key, (list, dict, MDict, set)):
        raise PyRaise(TypeError, ("unhashable type",), "in")
    key = d.fold(key)
    if d.tail is not None and not (not is_sym(key) and (key in d.tail.get("absent", ()) or any((not is_sym(k)) and k == key for k, _ in d.entries))):
        if d.tail.get("lazy") is None:
            raise OutOfReach(f"membership of {key!r} in a dict with an abstract tail")
        return _mfind(I, d, key) is not None
    return S.or_(*[py_eq(I, k, key) for k, _ in d.entries])


def mdict_get(I, d, key, default=None):
    i = _mfind(I, d, key)
    if i is None:
        return default
    return d.entries[i][1]


def mdict_getitem(I, d, key):
    i = _mfind(I, d, key)
    if i is not None:
        return d.entries[i][1]
    if d.factory is None:
        raise PyRaise(KeyError, (key,), "dict[]")
    # DefaultOrderedDict.__missing__ (contract, C17): store and return the default
    from mappyfile.tokens import OBJECT_LIST_KEYS
    k = d.fold(key)
    if I.ctx.branch(S.in_const_set(k, sorted(OBJECT_LIST_KEYS))):
        value = []
    else:
        value = I.call(d.factory, [], {})
    I.ctx.log_write(d, "defaulting read []")
    d.entries.append([k, value])
    return value


def mdict_setitem(I, d, key, value, log=True):
    if isinstance(key, (list, dict, MDict, set)):
        raise PyRaise(TypeError, ("unhashable type",), "[]=")
    if log:
        I.ctx.log_write(d, "[]=")
    i = _mfind(I, d, key)
    if i is None:
        d.entries.append([d.fold(key), value])
    else:
        d.entries[i][1] = value


def mdict_delitem(I, d, key):
    I.ctx.log_write(d, "del []")
    i = _mfind(I, d, key)
    if i is None:
        raise PyRaise(KeyError, (key,), "del dict[]")
    del d.entries[i]


_MISSING = object()


def _tail_or(d, what, concrete):
    if d.tail is None:
        return concrete
    return d.tail[what]


def mdict_pop(I, d, key, default=_MISSING):
    I.ctx.log_write(d, "pop")
    i = _mfind(I, d, key)
    if i is None:
        if default is _MISSING:
            raise PyRaise(KeyError, (key,), "dict.pop")
        return default
    v = d.entries[i][1]
    del d.entries[i]
    return v


def mdict_setdefault(I, d, key, default=None):
    i = _mfind(I, d, key)
    if i is None:
        I.ctx.log_write(d, "setdefault")
        d.entries.append([d.fold(key), default])
        return default
    return d.entries[i][1]


def mdict_update(I, d, other=None, **kw):
    if other is not None:
        if isinstance(other, MDict):
            items = [(k, v) for k, v in other.entries]
        elif isinstance(other, dict):
            items = list(other.items())
        else:
            items = [tuple(py_iter(I, p)) for p in py_iter(I, other)]
        for k, v in items:
            mdict_setitem(I, d, k, v)
    for k, v in kw.items():
        mdict_setitem(I, d, k, v)


def mdict_move_to_end(I, d, key, last=True):
    I.ctx.log_write(d, "move_to_end")
    i = _mfind(I, d, key)
    if i is None:
        raise PyRaise(KeyError, (key,), "move_to_end")
    e = d.entries.pop(i)
    if last:
        d.entries.append(e)
    else:
        d.entries.insert(0, e)


_MDICT_METHODS = {
    "get": mdict_get,
    "pop": mdict_pop,
    "setdefault": mdict_setdefault,
    "update": mdict_update,
    "move_to_end": mdict_move_to_end,
    "keys": lambda I, d: _tail_or(d, "keys", KeysView(k for k, _ in d.entries)),
    "values": lambda I, d: _tail_or(d, "values", [v for _, v in d.entries]),
    "items": lambda I, d: _tail_or(d, "items", [(k, v) for k, v in d.entries]),
    "has_key": lambda I, d, k: mdict_contains(I, d, k),
    "copy": lambda I, d: MDict(d.pycls, d.ci, d.factory, d.entries),
    "__contains__": lambda I, d, k: mdict_contains(I, d, k),
    "__getitem__": lambda I, d, k: mdict_getitem(I, d, k),
    "__setitem__": lambda I, d, k, v: mdict_setitem(I, d, k, v),
}


# ---------------------------------------------------------------------------------------------
# getattr / getitem / setitem / delitem
# ---------------------------------------------------------------------------------------------

class SplitParts:
    """s.split(sep) for a symbolic s and a constant non-empty sep.  Only element 0 is modelled, exactly: the text before the
    first occurrence of sep, or all of s when sep does not occur.  Never empty (so it is truthy and [0] never raises)."""

    def __init__(self, s, sep):
        self.s, self.sep = s, sep

    def head(self):
        t, c = S.term(self.s), S.term(self.sep)
        return Sym(S.STR, z3.If(z3.Contains(t, c), z3.SubString(t, 0, z3.IndexOf(t, c, 0)), t))


class WordList:
    """s.split() (no separator) for a symbolic s: an ASSUMED model of the built-in -- the number of blank-separated words is
    py_nwords(s) >= 0 and word i (0 <= i < py_nwords(s)) is py_word(s, i); both uninterpreted, refined on ground
    instances against CPython.  Indexing outside the range raises IndexError as CPython does."""

    def __init__(self, s):
        self.s = s

    def length(self):
        return Sym(S.INT, S.py_nwords(S.term(self.s)))

    def word(self, I, i):
        if is_sym(i) or not isinstance(i, int) or isinstance(i, bool):
            raise OutOfReach("word list indexed by a symbolic / non-integer index")
        n = self.length()
        ok = S.cmp("<", i, n) if i >= 0 else S.cmp(">=", n, -i)
        if not I.ctx.branch(ok):
            raise PyRaise(IndexError, ("list index out of range",), "[]")
        if i < 0:
            raise OutOfReach("word list indexed from the end")
        return Sym(S.STR, S.py_word(S.term(self.s), z3.IntVal(i)))


def _sym_str_split(I, s, sep=None, maxsplit=-1):
    if maxsplit == -1 and sep is None:
        return WordList(s)
    if maxsplit == -1 and isinstance(sep, str) and sep != "":
        return SplitParts(s, sep)
    raise OutOfReach("str.split with a symbolic separator or a maxsplit")


def _sym_str_strip_arg(I, s, chars=None):
    if chars is None:
        return S.strip(s)
    if isinstance(chars, str):
        return S.strip_chars(s, chars)
    raise OutOfReach("str.strip(chars) with symbolic chars")


def _sym_str_format(I, s, *a, **k):
    raise OutOfReach("format on a symbolic template")


def _sym_str_join(I, s, xs):
    return S.join(s, [py_str_strict(x) for x in py_iter(I, xs)])


def py_str_strict(x):
    if isinstance(x, TokenM):
        return x.text
    if S.sort_of(x) != S.STR:
        raise PyRaise(TypeError, ("sequence item: expected str instance",), "join")
    return x


_SYM_STR_METHODS = {
    "lower": lambda I, s: S.lower(s),
    "upper": lambda I, s: S.upper(s),
    "strip": _sym_str_strip_arg,
    "startswith": lambda I, s, p: S.startswith(s, p),
    "endswith": lambda I, s, p: S.endswith(s, p),
    "replace": lambda I, s, a, b: S.replace_all(s, a, b),
    "split": _sym_str_split,
    "join": _sym_str_join,
    "format": _sym_str_format,
}


def _const_str_format(I, tmpl, *args, **kwargs):
    out = ""
    auto = 0
    for lit, field, spec, conv in _string.Formatter().parse(tmpl):
        out = S.add(out, lit)
        if field is None:
            continue
        if spec or conv:
            raise OutOfReach("format spec / conversion in str.format")
        if field == "":
            v = args[auto]
            auto += 1
        elif field.isdigit():
            v = args[int(field)]
        else:
            if field not in kwargs:
                raise PyRaise(KeyError, (field,), "str.format")
            v = kwargs[field]
        out = S.add(out, py_str(I, v))
    return out


def getattr_(I, obj, name, frame=None):
    if isinstance(obj, Sym):
        if obj.sort == S.STR and name in _SYM_STR_METHODS:
            return BoundModel(_SYM_STR_METHODS[name], obj, name)
        raise PyRaise(AttributeError, (f"'{obj.sort}' object has no attribute '{name}'",), "getattr")
    if isinstance(obj, MDict):
        if name in _MDICT_METHODS:
            return BoundModel(_MDICT_METHODS[name], obj, name)
        if name == "default_factory":
            return obj.factory
        raise PyRaise(AttributeError, (f"dict has no attribute {name}",), "getattr")
    if isinstance(obj, TokenM):
        if name in ("type", "value", "line", "column", "end_line"):
            return getattr(obj, name)
        if name in obj.ghost:
            return obj.ghost[name]
        if name in ("lower", "upper", "strip", "startswith", "endswith", "replace"):
            return getattr_(I, obj.text, name, frame)
        raise PyRaise(AttributeError, (f"Token has no attribute {name}",), "getattr")
    if isinstance(obj, SuperProxy):
        return super_getattr(I, obj, name)
    if isinstance(obj, str):
        if name == "join":
            return BoundModel(_sym_str_join, obj, name)
        if name == "format":
            return BoundModel(_const_str_format, obj, name)
        if name in ("startswith", "endswith", "replace"):
            # arguments may be symbolic
            return BoundModel(_SYM_STR_METHODS[name], obj, name)
    try:
        v = getattr(obj, name)
    except AttributeError as ex:
        raise PyRaise(AttributeError, ex.args, "getattr")
    d = getattr(obj, "__dict__", None)
    if isinstance(d, dict) and name in d and not inspect.ismodule(obj) and not inspect.isclass(obj):
        I.ctx.reads.append((id(obj), name))
    return v


def super_getattr(I, sp: SuperProxy, name):
    obj = sp.obj
    cls = sp.cls
    if isinstance(obj, MDict):
        mro = obj.pycls.__mro__
    elif inspect.isclass(obj):
        mro = obj.__mro__
    else:
        mro = type(obj).__mro__
    started = False
    for c in mro:
        if started and name in c.__dict__:
            attr = c.__dict__[name]
            if isinstance(attr, types.FunctionType):
                if front.is_repo_function(attr):
                    return types.MethodType(attr, obj)
                if isinstance(obj, MDict):
                    raise OutOfReach(f"super().{name} resolves to native {c.__name__}.{name} on a modelled dict")
                return types.MethodType(attr, obj)
            if isinstance(obj, MDict):
                base = _BASE_DICT_METHODS.get(name)
                if base is None:
                    raise OutOfReach(f"super().{name} on a modelled dict")
                return BoundModel(base, obj, name)
            return attr.__get__(obj, type(obj))
        if c is cls:
            started = True
    raise PyRaise(AttributeError, (name,), "super")


_BASE_DICT_METHODS: dict = {}


def _absseq_getitem(I, obj, key):
    from .absx import AbsSeqList, AbsColl, first_of
    n_mid = obj.middle.info["length"]
    if isinstance(key, slice):
        if key.step is not None:
            raise OutOfReach("slice step on an abstract list")
        lo = 0 if key.start is None else key.start
        hi = key.stop
        if is_sym(lo) or is_sym(hi):
            raise OutOfReach("symbolic slice of an abstract list")
        if lo < 0 or lo > len(obj.head):
            raise OutOfReach("slice start inside the abstract run")
        if hi is None:
            return AbsSeqList(obj.head[lo:], obj.middle, obj.tail, obj.pytype)
        if hi < 0 and -hi <= len(obj.tail):
            return AbsSeqList(obj.head[lo:], obj.middle, obj.tail[:len(obj.tail) + hi], obj.pytype)
        raise OutOfReach("slice end inside the abstract run")
    if is_sym(key):
        raise OutOfReach("abstract list indexed by a symbolic integer")
    if key >= 0:
        if key < len(obj.head):
            return obj.head[key]
        j = key - len(obj.head)
        # inside the run, or past it into the tail: decided by the run's length
        if I.ctx.branch(S.cmp(">", n_mid, j)):
            if j == 0:
                return first_of(I.E, obj.middle)
            raise OutOfReach("index > 0 inside the abstract run")
        # the run has at most j elements: only decidable when it is empty
        if j == 0 or I.ctx.branch(S.eq(n_mid, 0)):
            if not I.ctx.branch(S.eq(n_mid, 0)):
                raise OutOfReach("index past a non-empty abstract run")
            if j < len(obj.tail):
                return obj.tail[j]
            raise PyRaise(IndexError, ("list index out of range",), "[]")
        raise OutOfReach("index past a non-empty abstract run")
    k = -key
    if k <= len(obj.tail):
        return obj.tail[len(obj.tail) - k]
    raise OutOfReach("negative index into the abstract run")


def getitem(I, obj, key):
    from .absx import AbsSeqList
    if isinstance(obj, AbsSeqList):
        return _absseq_getitem(I, obj, key)
    if isinstance(obj, MDict):
        return mdict_getitem(I, obj, key)
    if isinstance(obj, WordList):
        return obj.word(I, key)
    if isinstance(obj, SplitParts):
        if key == 0 and not is_sym(key) and not isinstance(key, slice):
            return obj.head()
        raise OutOfReach("only element 0 of str.split(sep) is modelled")
    if isinstance(obj, TokenM):
        obj = obj.text
    if isinstance(obj, Sym):
        if obj.sort != S.STR:
            raise PyRaise(TypeError, (f"'{obj.sort}' object is not subscriptable",), "[]")
        if isinstance(key, slice):
            return S.getitem(obj, key)
        n = S.length(obj)
        ok = S.and_(S.cmp("<", key, n), S.cmp(">=", key, S.arith("-", 0, n)))
        if not I.ctx.branch(ok):
            raise PyRaise(IndexError, ("string index out of range",), "[]")
        return S.getitem(obj, key)
    if isinstance(obj, str):
        if isinstance(key, slice):
            if any(is_sym(x) for x in (key.start, key.stop, key.step)):
                return S.getitem(Sym(S.STR, S.term(obj)), key)
        elif is_sym(key):
            return getitem(I, Sym(S.STR, S.term(obj)), key)
    if isinstance(obj, (list, tuple)):
        if is_sym(key):
            raise OutOfReach("sequence indexed by a symbolic integer")
        if isinstance(key, slice) and any(is_sym(x) for x in (key.start, key.stop, key.step)):
            raise OutOfReach("sequence sliced by a symbolic integer")
    if isinstance(obj, dict):
        if is_sym(key):
            # concrete dict, symbolic key: case analysis over the keys
            for k, v in obj.items():
                if I.ctx.branch(py_eq(I, k, key)):
                    return v
            missing = getattr(type(obj), "__missing__", None)
            if missing is not None:
                raise OutOfReach("__missing__ on a concrete dict with a symbolic key")
            raise PyRaise(KeyError, (key,), "[]")
        if isinstance(key, (MDict, TokenM)):
            raise OutOfReach("modelled object used as a dict key")
    if obj is None or isinstance(obj, (int, float, bool)):
        raise PyRaise(TypeError, (f"'{type(obj).__name__}' object is not subscriptable",), "[]")
    try:
        return obj[key]
    except (IndexError, KeyError, TypeError) as ex:
        raise PyRaise(type(ex), ex.args, "[]")


def setitem(I, obj, key, value, log=True):
    if isinstance(obj, MDict):
        return mdict_setitem(I, obj, key, value, log=log)
    if is_sym(key):
        raise OutOfReach("store with a symbolic key/index into a concrete container")
    if isinstance(obj, (Sym, str, tuple, TokenM)) or obj is None:
        raise PyRaise(TypeError, ("object does not support item assignment",), "[]=")
    if log:
        I.ctx.log_write(obj, "[]=")
    try:
        obj[key] = value
    except (IndexError, KeyError, TypeError) as ex:
        raise PyRaise(type(ex), ex.args, "[]=")


def delitem(I, obj, key):
    if isinstance(obj, MDict):
        return mdict_delitem(I, obj, key)
    if is_sym(key):
        raise OutOfReach("del with a symbolic key")
    I.ctx.log_write(obj, "del []")
    try:
        del obj[key]
    except (IndexError, KeyError, TypeError) as ex:
        raise PyRaise(type(ex), ex.args, "del []")


# ---------------------------------------------------------------------------------------------
# builtin function models
# ---------------------------------------------------------------------------------------------

def m_len(I, x):
    from .absx import AbsColl
    from .absx import AbsSeqList
    if isinstance(x, AbsSeqList):
        return x.length()
    if isinstance(x, WordList):
        return x.length()
    if isinstance(x, SplitParts):
        raise OutOfReach("len() of str.split(sep)")
    if isinstance(x, AbsColl):
        if "length" in x.info:
            return x.info["length"]
        raise OutOfReach("len() of an abstract collection without a length ghost")
    if isinstance(x, MDict):
        if x.tail is not None:
            raise OutOfReach("len() of a dict with an abstract tail")
        return len(x.entries)
    if isinstance(x, TokenM):
        x = x.text
    if is_sym(x):
        if x.sort != S.STR:
            raise PyRaise(TypeError, (f"object of type '{x.sort}' has no len()",), "len")
        return S.length(x)
    try:
        return len(x)
    except TypeError as ex:
        raise PyRaise(TypeError, ex.args, "len")


def m_str(I, x=""):
    return py_str(I, x)


def m_int(I, x=0):
    if isinstance(x, TokenM):
        x = x.text
    if is_sym(x):
        if x.sort == S.STR:
            # int() of a string may raise ValueError: expressed through an uninterpreted validity predicate
            raise OutOfReach("int() of a symbolic string (use a contract at this call site)")
        return S.to_int(x)
    try:
        return int(x)
    except (ValueError, TypeError) as ex:
        raise PyRaise(type(ex), ex.args, "int")


def m_float(I, x=0.0):
    if isinstance(x, TokenM):
        x = x.text
    if is_sym(x):
        if x.sort == S.STR:
            raise OutOfReach("float() of a symbolic string (use a contract at this call site)")
        return S.to_float(x)
    try:
        return float(x)
    except (ValueError, TypeError) as ex:
        raise PyRaise(type(ex), ex.args, "float")


def m_bool(I, x=False):
    return py_truth(I, x)


def m_max(I, *args, **kw):
    from .absx import AbsMap, add_fact
    if len(args) == 1 and isinstance(args[0], AbsMap):
        # contract of max over a collection of unknown length: the result is >= every element and is
        # either the default (empty collection) or at least the default is irrelevant; no more is assumed
        am = args[0]
        if set(kw) - {"default"}:
            raise OutOfReach("max with key=")
        r = I.ctx.fresh(S.INT, "max")
        if "default" not in kw:
            raise OutOfReach("max() of a possibly empty abstract collection without default")
        I.ctx.assume(S.cmp(">=", r, kw["default"]) if S.sort_of(kw["default"]) in (S.INT,) else True)

        def fact(elem, am=am, r=r):
            cond, val = am.apply(elem)
            return S.implies(cond, S.cmp(">=", r, val))
        add_fact(am.source, fact)
        return r
    if kw:
        raise OutOfReach("max with keywords")
    xs = list(py_iter(I, args[0])) if len(args) == 1 else list(args)
    if not xs:
        raise PyRaise(ValueError, ("max() arg is an empty sequence",), "max")
    out = xs[0]
    for x in xs[1:]:
        out = S.max2(out, x)
    return out


def m_min(I, *args, **kw):
    if kw:
        raise OutOfReach("min with keywords")
    xs = list(py_iter(I, args[0])) if len(args) == 1 else list(args)
    if not xs:
        raise PyRaise(ValueError, ("min() arg is an empty sequence",), "min")
    out = xs[0]
    for x in xs[1:]:
        out = S.min2(out, x)
    return out


def m_any(I, xs):
    acc = False
    for x in py_iter(I, xs):
        t = py_truth(I, x)
        if t is True:
            return True
        acc = S.or_(acc, t)
    return acc


def m_all(I, xs):
    acc = True
    for x in py_iter(I, xs):
        t = py_truth(I, x)
        if t is False:
            return False
        acc = S.and_(acc, t)
    return acc


def m_list(I, xs=()):
    from .absx import AbsColl
    if isinstance(xs, AbsColl):
        # list(view): a snapshot with the same elements in the same order
        snap = AbsColl(xs.name + "@snapshot", **xs.info)
        snap.facts = xs.facts
        return snap
    if isinstance(xs, MDict):
        return [k for k, _ in xs.entries]
    return list(py_iter(I, xs))


def m_tuple(I, xs=()):
    return tuple(m_list(I, xs))


def m_map(I, f, *iters):
    its = [list(py_iter(I, it)) for it in iters]
    return [I.call(f, list(args), {}) for args in zip(*its)]


def m_enumerate(I, xs, start=0):
    return list(enumerate(py_iter(I, xs), start))


def m_zip(I, *xs):
    return list(zip(*[list(py_iter(I, x)) for x in xs]))


def m_sorted(I, xs, **kw):
    vals = list(py_iter(I, xs))
    if _contains_symbolic(vals):
        if len(vals) <= 1:
            return vals
        raise OutOfReach("sorted() of symbolic values")
    try:
        return sorted(vals, **kw)
    except TypeError as ex:
        raise PyRaise(TypeError, ex.args, "sorted")


def m_hasattr(I, obj, name):
    try:
        getattr_(I, obj, name)
        return True
    except PyRaise as ex:
        if ex.etype is AttributeError:
            return False
        raise


def m_getattr(I, obj, name, *default):
    try:
        return getattr_(I, obj, name)
    except PyRaise as ex:
        if ex.etype is AttributeError and default:
            return default[0]
        raise


def m_next(I, it, *default):
    for x in it:
        return x
    if default:
        return default[0]
    raise PyRaise(StopIteration, (), "next")


def m_callable(I, x):
    return isinstance(x, (Closure, BoundModel)) or callable(x)


def m_abs(I, x):
    if is_sym(x):
        return S.ite(S.cmp("<", x, 0), S.arith("-", 0, x), x)
    return abs(x)


def m_set(I, xs=()):
    vals = list(py_iter(I, xs))
    if _contains_symbolic(vals):
        raise OutOfReach("set() of symbolic values")
    try:
        return set(vals)
    except TypeError as ex:
        raise PyRaise(TypeError, ex.args, "set")


def m_dict_ctor(I, cls, *args, **kwargs):
    d = MDict(pycls=cls)
    mdict_update(I, d, *(args[:1]), **kwargs)
    return d


def m_default_ordered_dict(I, cls, default_factory=None, *args, **kwargs):
    DOD, CIOD = _mappy_dict_classes()
    if default_factory is not None and not m_callable(I, default_factory):
        raise PyRaise(TypeError, ("First argument must be callable",), "DefaultOrderedDict")
    d = MDict(pycls=cls, ci=issubclass(cls, CIOD), factory=default_factory)
    mdict_update(I, d, *(args[:1]), **kwargs)
    return d


def m_token_ctor(I, cls, type_, value, *a, **k):
    return TokenM(type_, value)


_BUILTIN_MODELS = {
    builtins.len: m_len, builtins.str: m_str, builtins.int: m_int, builtins.float: m_float,
    builtins.bool: m_bool, builtins.isinstance: m_isinstance, builtins.max: m_max, builtins.min: m_min,
    builtins.any: m_any, builtins.all: m_all, builtins.list: m_list, builtins.tuple: m_tuple,
    builtins.map: m_map, builtins.enumerate: m_enumerate, builtins.zip: m_zip, builtins.sorted: m_sorted,
    builtins.hasattr: m_hasattr, builtins.getattr: m_getattr, builtins.next: m_next,
    builtins.callable: m_callable, builtins.abs: m_abs, builtins.set: m_set, builtins.type: m_type,
}

EXTRA_MODELS: dict = {}          # function object -> model, registered by contracts (external calls)
EXTRA_CLASS_MODELS: dict = {}


def lookup(f):
    try:
        m = _BUILTIN_MODELS.get(f)
    except TypeError:
        return None
    if m is not None:
        return m
    try:
        return EXTRA_MODELS.get(f)
    except TypeError:
        return None


def lookup_class(cls):
    if cls in EXTRA_CLASS_MODELS:
        return EXTRA_CLASS_MODELS[cls]
    if cls is dict or cls is OrderedDict:
        return m_dict_ctor
    try:
        DOD, CIOD = _mappy_dict_classes()
        if issubclass(cls, DOD):
            return m_default_ordered_dict
        if issubclass(cls, _token_class()):
            return m_token_ctor
    except ImportError:
        pass
    return None


SYM_MEMBERS: dict = {}     # id(set object) -> (the set, [symbolic members added on this path])


def sym_members(s):
    ent = SYM_MEMBERS.get(id(s))
    return ent[1] if ent is not None and ent[0] is s else []


def lookup_method(f):
    """model for a native bound method called with symbolic arguments"""
    selfobj = getattr(f, "__self__", None)
    name = getattr(f, "__name__", "")
    if isinstance(selfobj, set) and name == "add":
        def run_add(I, obj, x):
            I.ctx.log_write(obj, "set.add")
            if is_sym(x):
                ent = SYM_MEMBERS.get(id(obj))
                if ent is None or ent[0] is not obj:
                    SYM_MEMBERS[id(obj)] = (obj, [])
                SYM_MEMBERS[id(obj)][1].append(x)
                return None
            return obj.add(x)
        return run_add
    if isinstance(selfobj, list) and name in ("append", "extend", "insert", "__iadd__", "pop", "clear", "copy"):
        def run(I, obj, *a):
            if any(is_sym(x) for x in a) and name in ("pop", "insert"):
                raise OutOfReach(f"list.{name} with a symbolic index")
            if name != "copy":
                I.ctx.log_write(obj, "list." + name)
            try:
                return getattr(obj, name)(*a)
            except IndexError as ex:
                raise PyRaise(IndexError, ex.args, "list." + name)
        return run
    if isinstance(selfobj, dict) and name in ("get", "pop", "setdefault"):
        def run_d(I, obj, key, *default):
            if is_sym(key):
                for k, v in list(obj.items()):
                    if I.ctx.branch(py_eq(I, k, key)):
                        if name == "pop":
                            I.ctx.log_write(obj, "dict.pop")
                            return obj.pop(k)
                        return v
                if name == "setdefault":
                    raise OutOfReach("setdefault with a symbolic key on a concrete dict")
                if default:
                    return default[0]
                if name == "pop":
                    raise PyRaise(KeyError, (key,), "dict.pop")
                return None
            if name != "get":
                I.ctx.log_write(obj, "dict." + name)
            return getattr(obj, name)(key, *default)
        return run_d
    if isinstance(selfobj, str) and name == "join":
        return lambda I, obj, xs: _sym_str_join(I, obj, xs)
    return None
