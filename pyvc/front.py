"""Front end: the verified text is the code that runs.

Every function body handed to the interpreter is the ``ast.FunctionDef`` found in the *current* source
file of the function object that the running interpreter would call (``fn.__code__.co_filename`` /
``co_firstlineno``); nothing is transcribed.  ``source_sha`` gives the sha256 of the function's source
segment for the evidence file.

What the extraction drops (and nothing else): docstrings, type annotations, comments, decorators
(``@classmethod`` is honoured by the engine, ``@click.*``/``@v_args``/``@functools.wraps`` are not
executed), and calls on ``logging.Logger`` objects (arguments are still evaluated).
"""
from __future__ import annotations
import ast
import hashlib
import inspect
import os
import sys

REPO = os.environ.get("VERIF_REPO", "/repo")

_mod_cache: dict[str, tuple[ast.Module, str]] = {}
MUTATIONS: list = []      # canaries: (file suffix, old text, new text) applied to the source before parsing


def use_repo():
    """Make ``import mappyfile`` resolve to REPO (the working tree under verification)."""
    if sys.path[0] != REPO:
        sys.path.insert(0, REPO)
    for name in list(sys.modules):
        if name == "mappyfile" or name.startswith("mappyfile."):
            f = getattr(sys.modules[name], "__file__", "") or ""
            if f and not os.path.abspath(f).startswith(os.path.abspath(REPO) + os.sep):
                del sys.modules[name]
    os.environ.setdefault("MAPPYFILE_USE_CYTHON", "False")


def module_ast(filename: str):
    filename = os.path.abspath(filename)
    if filename not in _mod_cache:
        with open(filename, encoding="utf-8") as f:
            src = f.read()
        for mut in MUTATIONS:
            if mut[0] == "pos":
                # ("pos", file suffix, start, end, new text): replace one source span (tools/mutants.py)
                _, suffix, a, b, new = mut
                if filename.endswith(suffix):
                    src = src[:a] + new + src[b:]
                continue
            (suffix, old, new) = mut
            if filename.endswith(suffix):
                if old not in src:
                    raise LookupError(f"canary pattern not found in {filename}: {old!r}")
                src = src.replace(old, new, 1)
        tree = ast.parse(src, filename)
        for node in ast.walk(tree):
            for child in ast.iter_child_nodes(node):
                child._parent = node  # type: ignore[attr-defined]
        _mod_cache[filename] = (tree, src)
    return _mod_cache[filename]


# decorators the extraction drops: they register the function (click, lark's v_args) or only change how it is bound;
# `deprecated` (utils.py) wraps with a warning and calls through.  Anything else (caches, retries, locks ...) is out of reach.
TRANSPARENT_DECORATORS = {"v_args", "classmethod", "staticmethod", "functools.wraps", "deprecated"}


def is_repo_function(fn) -> bool:
    code = getattr(fn, "__code__", None)
    if code is None:
        return False
    fnm = os.path.abspath(code.co_filename)
    return fnm.startswith(os.path.abspath(REPO) + os.sep + "mappyfile" + os.sep)


def func_ast(fn):
    """(FunctionDef, enclosing ClassDef or None, filename) for a repository function object."""
    fn = inspect.unwrap(fn) if hasattr(fn, "__wrapped__") else fn
    code = fn.__code__
    tree, _ = module_ast(code.co_filename)
    line = code.co_firstlineno
    best = None
    for node in ast.walk(tree):
        if isinstance(node, (ast.FunctionDef, ast.Lambda)):
            lines = [node.lineno] + [d.lineno for d in getattr(node, "decorator_list", [])]
            if line in lines and getattr(node, "name", "<lambda>") == code.co_name:
                best = node
                break
    if best is None:
        raise LookupError(f"no FunctionDef for {fn!r} at {code.co_filename}:{line}")
    cls = None
    p = getattr(best, "_parent", None)
    while p is not None:
        if isinstance(p, ast.ClassDef):
            cls = p
            break
        if isinstance(p, (ast.FunctionDef, ast.Lambda)):
            break
        p = getattr(p, "_parent", None)
    return best, cls, os.path.abspath(code.co_filename)


def source_sha(fn) -> str:
    node, _, filename = func_ast(fn)
    _, src = module_ast(filename)
    seg = ast.get_source_segment(src, node) or ""
    return hashlib.sha256(seg.encode("utf-8")).hexdigest()


def resolve(qualname: str):
    """'mappyfile.pprint.PrettyPrinter.format_value' -> function object of the working tree."""
    import importlib
    parts = qualname.split(".")
    for i in range(len(parts), 0, -1):
        try:
            obj = importlib.import_module(".".join(parts[:i]))
        except ImportError:
            continue
        for p in parts[i:]:
            obj = inspect.getattr_static(obj, p) if inspect.isclass(obj) else getattr(obj, p)
        if isinstance(obj, (classmethod, staticmethod)):
            obj = obj.__func__
        if hasattr(obj, "base_func"):      # lark's @v_args wrapper
            obj = obj.base_func
        return obj
    raise LookupError(qualname)
