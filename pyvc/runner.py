"""Runs a property plan: P obligations (pool of worker processes), E tables, B bounded checks; matches
failures against known_findings.json and the ledger; writes evidence; decides the exit status.

Exit status: 0 held / 1 violation (VIOLATION line printed) / 2 undecided without bounded fallback /
3 checker error (zero obligations, canary passed, internal error).
"""
from __future__ import annotations
import json
import multiprocessing as mp
import os
import sys
import time
import traceback

ROOT = os.path.dirname(os.path.dirname(os.path.abspath(__file__)))
OUT = os.environ.get("VERIF_OUT", ROOT)      # evidence/ and replays/ go here (seeded-change trials redirect it)

TRUSTED_BASE = [
    "pyvc (this repository's VC generator: /verif/pyvc, ~3k lines) — its encoding of the Python subset",
    "z3 5.1.0 (in-process) and cvc5 1.0.3 (/usr/bin/cvc5 --strings-exp) as SMT back ends",
    "CPython 3.12 built-ins as modelled in pyvc/models.py and pyvc/sym.py (str/int/list/dict/OrderedDict)",
    "Lark 1.3.1: parse() returns a derivation of the text in the compiled grammar; Transformer calls callbacks bottom-up; exceptions in callbacks are wrapped in VisitError",
    "jsonschema 4.x Draft4Validator.iter_errors and jsonref.load ($ref expansion)",
]

ASSUMPTIONS = [
    "int is mathematical (exact in Python); float is treated as a real number",
    "str is an SMT-LIB Unicode string; lower/upper/strip are uninterpreted functions constrained by idempotence-style axioms plus ground facts computed by CPython on solver models",
    "s * n is an uninterpreted py_rep(s, n) with rep(s,0)='', rep(s,1)=s, len(rep(s,n))=len(s)*n for n>=0",
    "str.replace(a,b) is SMT-LIB str.replace_all (equal for non-empty a)",
    "str.split() without a separator is an assumed model: a list of py_nwords(s) >= 0 words py_word(s, i), both uninterpreted and refined on ground instances by CPython; s.split(c)[0] for a constant non-empty c is the exact term 'text before the first c, else s'; s.strip(chars) is an uninterpreted py_strip_chars(s, chars) with length / substring / idempotence axioms (used by Parser._get_include_filename only)",
    "termination of recursive functions is not verified (partial correctness)",
    "the string axioms (lower/upper idempotent, ASCII delimiters never created or changed, ASCII-only lower∘upper∘lower, strip / replace / repeat facts) are assumed for all strings and re-checked against this CPython on every run: character-wise over every code point, the others on a fixed family of strings (sym.selftest_axioms)",
    "decorators are not executed: click.*, main.*, v_args, classmethod, staticmethod, functools.wraps and utils.deprecated are assumed not to change what a call does; a function under any other decorator is out of reach",
    "Lark (lexing, LALR parsing, line/column of tokens, which terminals advance the line counter), jsonschema Draft4Validator and jsonref are assumed; their use is exercised by the bounded seams and the finite tables only",
]


def _init_worker(repo, modules):
    os.environ["VERIF_REPO"] = repo
    sys.path.insert(0, ROOT)
    from pyvc import front
    front.REPO = repo
    front.use_repo()
    import importlib
    for m in modules:
        importlib.import_module(m)


def _run_job(job):
    target_name, case = job
    from pyvc import api, verify
    try:
        c = next(x for x in api.ALL if x.name == target_name)
        return verify.verify_case(c, case, api.REGISTRY)
    except Exception:
        return [dict(function=target_name, case=str(case), name=f"{target_name}[{case}]", clause="*",
                     verdict="checker-error", reason=traceback.format_exc())]


def run_p_jobs(jobs, modules, procs=None):
    """jobs: list of (contract name, case).  Returns the flat list of obligation records."""
    from pyvc import front
    procs = procs or min(16, max(1, len(jobs)))
    if not jobs:
        return []
    ctx = mp.get_context("fork")
    with ctx.Pool(procs, initializer=_init_worker, initargs=(front.REPO, modules), maxtasksperchild=50) as pool:
        out = []
        for recs in pool.imap_unordered(_run_job, jobs, chunksize=1):
            out.extend(recs)
    return out


def obligation_key(rec):
    return f"{rec['function']}[{rec['case']}]:{rec['clause']}"


def load_known(prop):
    path = os.path.join(ROOT, "known_findings.json")
    if not os.path.exists(path):
        return []
    with open(path) as f:
        data = json.load(f)
    return [k for k in data.get("findings", []) if k.get("property") == prop and k.get("status") == "open"]


def load_ledger():
    path = os.path.join(ROOT, "ledger.json")
    if not os.path.exists(path):
        return {}
    with open(path) as f:
        return json.load(f)


class Report:
    def __init__(self, prop, tier, seed, level):
        self.prop = prop
        self.tier = tier
        self.seed = seed
        self.level = level
        self.t0 = time.time()
        self.p_records = []
        self.e_records = []
        self.b_records = []
        self.canaries = []
        self.violations = []      # (replay_path, suffix)
        self.known_printed = []
        self.undecided = []
        self.errors = []
        self.notes = []
        self.extra = {}

    # ---- classification ---------------------------------------------------------------------
    def _known(self, key, detail=None):
        import fnmatch
        for k in load_known(self.prop):
            ob = k.get("obligation", "")
            if ob == key or (("*" in ob) and fnmatch.fnmatchcase(key, ob)):
                return k
        return None

    def replay_file(self, name, payload):
        d = os.path.join(OUT, "replays", self.prop)
        os.makedirs(d, exist_ok=True)
        safe = "".join(ch if ch.isalnum() or ch in "-_." else "_" for ch in name)[:120]
        path = os.path.join(d, safe + ".json")
        with open(path, "w") as f:
            json.dump(payload, f, indent=1, default=repr)
        return path

    def add_p(self, recs):
        self.p_records.extend(recs)

    def add_e(self, recs):
        self.e_records.extend(recs)

    def add_b(self, recs):
        if isinstance(recs, dict):
            recs = [recs]
        self.b_records.extend(recs)

    def finish(self, checker_cmd, functions=None, explanation=None, b_fallback_ok=True):
        ledger = load_ledger().get(self.prop, {})
        obligations = 0
        discharged = 0
        by_backend = {}
        solver_time = 0.0
        known_matched = []
        out_of_reach = []
        seen_known = set()
        fail_groups = {}
        nontrivial = set()
        e_ids = {id(r) for r in self.e_records}
        for r in self.p_records + self.e_records:
            v = r["verdict"]
            if v == "meta":
                continue
            key = obligation_key(r)
            solver_time += r.get("time", 0.0) or 0.0
            obligations += 1
            if r.get("backend") in ("z3", "cvc5") or (r.get("n_pc") or 0) > 0 or id(r) in e_ids:
                nontrivial.add(r["name"])
            if v == "proved":
                discharged += 1
                by_backend[r.get("backend", "?")] = by_backend.get(r.get("backend", "?"), 0) + 1
                continue
            if v == "vacuous" and any(kk.startswith(f"{r['function']}[{r['case']}]") for kk in ledger):
                # obligations of this (function, case) were discharged on the committed tree and cannot even be
                # generated now (the loop / path they belong to is no longer reached): the code changed shape
                self.undecided.append((r["name"], "obligations of the committed tree can no longer be generated: " + r.get("reason", "")))
                continue
            if v == "checker-error" and any(kk.startswith(f"{r['function']}[") for kk in ledger):
                # the contract code itself failed (e.g. it names a local variable that no longer exists) on a function
                # whose obligations were discharged on the committed tree: the code changed; not a verdict either way
                self.undecided.append((r["name"], "contract could not be evaluated on the changed code: " + (r.get("reason", "") or "")[-300:]))
                continue
            if v in ("checker-error", "vacuous"):
                self.errors.append((r["name"], r.get("reason", "")))
                continue
            k = self._known(key)
            if k is not None:
                if k["obligation"] not in seen_known:
                    seen_known.add(k["obligation"])
                    known_matched.append(key)
                    print(f"KNOWN-FINDING: property={self.prop} {k.get('what', key)}")
                continue
            if v == "out-of-reach":
                out_of_reach.append((r["name"], r.get("reason", "")))
                continue
            if v == "unknown":
                self.undecided.append((r["name"], r.get("reason", "")))
                continue
            if v == "refuted":
                fail_groups.setdefault(key, []).append(r)
                continue
            self.errors.append((r["name"], "unexpected verdict " + str(v)))
        for key, rs in fail_groups.items():
            confirmed = [r for r in rs if (r.get("replay") or {}).get("status") == "confirmed" or r.get("backend") == "eval"]
            if confirmed:
                r = confirmed[0]
                path = self.replay_file(key, dict(property=self.prop, obligation=key, record=r))
                self.violations.append((path, ""))
            elif ledger.get(key) == "proved":
                r = rs[0]
                path = self.replay_file(key, dict(property=self.prop, obligation=key, record=r,
                                                  note="obligation was discharged on the committed tree and is refuted now; no model survived native replay"))
                self.violations.append((path, " no-failing-input-found"))
            else:
                self.undecided.append((rs[0]["name"], "refuted by the solver but not reproduced natively and not in the ledger"))
        b_fail = 0
        b_evals = 0
        for r in self.b_records:
            b_evals += r.get("evaluations", 0)
            for fl in r.get("failures", []):
                key = f"{r['name']}:{fl.get('key', '')}"
                k = self._known(key)
                if k is not None:
                    if k["obligation"] not in seen_known:
                        seen_known.add(k["obligation"])
                        known_matched.append(key)
                        print(f"KNOWN-FINDING: property={self.prop} {k.get('what', key)}")
                    continue
                b_fail += 1
                path = self.replay_file(key, dict(property=self.prop, obligation=key, bounded=True, failure=fl,
                                                  seam=r.get("name"), seam_func=r.get("seam_func"), tier=self.tier, seed=self.seed))
                self.violations.append((path, ""))
        for c in self.canaries:
            if c.get("error"):
                continue      # the mutated text is no longer in the source (the code changed): canary skipped
            if not c.get("killed"):
                self.errors.append(("canary:" + c["name"], "a mutant that must fail was accepted: checker broken"))
        if os.environ.get("VERIF_WRITE_LEDGER") == "1" and not self.violations and not self.errors:
            # the committed baseline: which (function, case, clause) obligations are discharged on this tree
            status = {}
            for r in self.p_records + self.e_records:
                if r["verdict"] == "meta":
                    continue
                kk = obligation_key(r)
                status[kk] = "proved" if (r["verdict"] == "proved" and status.get(kk, "proved") == "proved") else "not-proved"
            lp = os.path.join(ROOT, "ledger.json")
            led = load_ledger()
            led[self.prop] = {kk: v for kk, v in sorted(status.items()) if v == "proved"}
            with open(lp, "w") as f:
                json.dump(led, f, indent=0, sort_keys=True)
        wall = time.time() - self.t0
        cov = dict(
            obligations=obligations, discharged=discharged, checker_cmd=checker_cmd,
            trusted_base=TRUSTED_BASE, by_backend=by_backend, solver_time_s=round(solver_time, 2),
            functions_under_contract=functions or sorted({r["function"] for r in self.p_records if r.get("function")}),
            samples=[dict(name=r["name"], verdict=r["verdict"], backend=r.get("backend"), outcome=r.get("outcome"))
                     for r in (self.p_records + self.e_records) if r["verdict"] == "proved"][:6],
            bounded_checks=[{k: v for k, v in r.items() if k != "failures"} | {"failures": len(r.get("failures", []))}
                            for r in self.b_records],
            bounded_evaluations=b_evals,
            undecided=[u[0] for u in self.undecided], out_of_reach=[o[0] for o in out_of_reach],
            out_of_reach_reasons=sorted({o[1] for o in out_of_reach})[:10],
            known_findings_matched=known_matched, canaries=self.canaries,
            evaluations=obligations + b_evals, distinct_nontrivial=len(nontrivial),
            rule="an obligation = one (function, case, path, clause) verification condition generated from the current source, or one cell of a finite repository table; evaluations = obligations + bounded-seam inputs; distinct_nontrivial = distinct obligation names that needed a solver call (z3/cvc5), lie on a path with at least one symbolic branch condition, or are table cells (obligations closed by constant evaluation on a branch-free path are counted as trivial); bounded evaluations are listed separately and never counted as discharged",
            explanation=explanation or "",
            exhaustive=False,
        )
        cov.update(self.extra)
        ev = dict(property_id=self.prop, tier=self.tier, seed=self.seed, level=self.level, coverage=cov,
                  assumptions=ASSUMPTIONS + self.notes, wall_s=round(wall, 2), violations=len(self.violations))
        os.makedirs(os.path.join(OUT, "evidence"), exist_ok=True)
        with open(os.path.join(OUT, "evidence", f"{self.prop}.json"), "w") as f:
            json.dump(ev, f, indent=1, default=repr)
        for name, why in out_of_reach:
            print(f"OUT-OF-REACH function={name} construct={why[:160]}")
        for name, why in self.undecided:
            print(f"UNDECIDED obligation={name} {why[:160]}")
        for name, why in self.errors:
            print(f"CHECKER-ERROR {name}: {why[:2000]}")
        print(f"{self.prop} {self.tier}: obligations={obligations} discharged={discharged} backends={by_backend} "
              f"bounded_evals={b_evals} known={len(known_matched)} undecided={len(self.undecided)} "
              f"out_of_reach={len(out_of_reach)} wall={wall:.1f}s")
        if self.violations:
            shown = set()
            for path, suffix in self.violations:
                if path in shown:
                    continue
                shown.add(path)
                print(f"VIOLATION property={self.prop} replay={path}{suffix}")
            return 1
        if self.errors or obligations == 0:
            if obligations == 0:
                print("CHECKER-ERROR zero obligations")
            return 3
        if (self.undecided or out_of_reach) and not b_fallback_ok:
            return 2
        return 0
