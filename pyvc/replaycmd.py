"""check.py <prop> --replay FILE: re-execute a recorded counterexample natively against the working tree."""
from __future__ import annotations
import json
import sys


def run(prop, path):
    with open(path) as f:
        data = json.load(f)
    print(f"replay of {data.get('obligation')} (property {data.get('property')})")
    if data.get("bounded"):
        print("bounded-check failure recorded as:")
        print(json.dumps(data.get("failure"), indent=1)[:4000])
        fname = data.get("seam_func")
        if not fname:
            print("re-run the property's check to re-evaluate the bounded seam on the current tree")
            return 1
        # re-run the seam that produced this input (same tier and seed) against the current tree and look for the same key
        from props import plans
        rec = plans.seam(fname)(data.get("tier") or "quick", int(data.get("seed") or 0))
        recs = rec if isinstance(rec, list) else [rec]
        want = (data.get("failure") or {}).get("key")
        hits = [fl for r in recs for fl in r.get("failures", []) if fl.get("key") == want]
        if hits:
            print(f"REPRODUCED on the current tree: seam {fname} still fails for input {want!r}:")
            print(json.dumps(hits[0], indent=1, default=repr)[:3000])
            return 1
        print(f"not reproduced on the current tree: seam {fname} no longer fails for input {want!r}")
        return 0
    rec = data.get("record", {})
    print("verdict:", rec.get("verdict"), "backend:", rec.get("backend"))
    if data.get("note"):
        print("note:", data["note"])
    model = rec.get("model")
    fn, case = rec.get("function"), rec.get("case")
    if model is None or fn is None or str(fn).startswith("table:"):
        print(json.dumps(rec, indent=1, default=repr)[:4000])
        return 1
    from props.plans import ALL_MODULES
    from props import common
    from pyvc import api, verify
    common.load_contracts(ALL_MODULES)
    c = next((x for x in api.ALL if x.name == fn), None)
    if c is None or "@loop" in str(case):
        print("the obligation belongs to a loop contract (arbitrary iteration): no concrete call to replay; solver model:")
        print(json.dumps(model, indent=1, default=repr)[:2000])
        return 1
    prev = rec.get("replay") or {}
    if prev.get("status") == "not-replayable":
        print("no native replay for this obligation:", prev.get("reason"))
        print("solver model:", json.dumps(model, indent=1, default=repr)[:2000])
        print("re-run the check to re-generate and re-decide the obligation on the current tree")
        return 1
    r = verify.replay(c, case, model, rec.get("clause"))
    print("native replay on the current tree:", json.dumps(r, indent=1, default=repr)[:3000])
    return 1 if r.get("status") in ("confirmed", "other-clause") else 0
