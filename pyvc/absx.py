"""Abstract (unbounded) collections and list segments for the loop rules.

AbsColl   an unknown-length iterable supplied by a contract harness.  A ``for`` loop over it is verified
          with the contract's LoopSpec (arbitrary-iteration rule), never unrolled.
Seg       an opaque run of list elements (the unknown prefix of an accumulator at an arbitrary
          iteration, the result of a loop, or the result of a callee used through its contract).
"""
from __future__ import annotations
from . import sym as S


class Ghost:
    """base class of contract-level stand-ins for external objects (a Lark parser, a file object, ...):
    their methods are contract code and are called natively with the interpreter as first argument"""


class AbsColl:
    def __init__(self, name, **info):
        self.name = name
        self.info = info
        self.facts = []      # callables(elem) -> condition, assumed for every element drawn from this collection

    def __repr__(self):
        return f"AbsColl({self.name})"


class AbsMap:
    """``[elt for target in coll if conds]`` over an abstract collection, kept lazy (comprehension rule:
    the result has one element elt(x) per element x of coll that satisfies the conditions, in order)"""

    def __init__(self, source, apply):
        self.source = source
        self.apply = apply      # apply(elem) -> (condition, value)


def add_fact(coll, fact):
    """record ``fact(elem)`` as holding for every element of coll (conclusion of loop rule R-forall or of a
    built-in's contract such as max())"""
    owner = coll.info.get("owner")
    if owner is not None and getattr(owner, "tail", None) is not None:
        owner.tail.setdefault("facts", []).append((coll.info.get("view"), fact))
    else:
        coll.facts.append(fact)


def facts_for(coll, elem):
    out = [f(elem) for f in coll.facts]
    owner = coll.info.get("owner")
    if owner is not None and getattr(owner, "tail", None) is not None:
        view = coll.info.get("view")
        for v2, f in owner.tail.get("facts", []):
            if v2 == view:
                out.append(f(elem))
            elif view == "items" and v2 == "keys":
                out.append(f(elem[0]))
            elif view == "items" and v2 == "values":
                out.append(f(elem[1]))
    return out


class Seg:
    def __init__(self, *key):
        self.key = key

    def __repr__(self):
        return f"Seg{self.key!r}"


def key_eq(a, b):
    if isinstance(a, tuple) and isinstance(b, tuple):
        if len(a) != len(b):
            return False
        return S.and_(*[key_eq(x, y) for x, y in zip(a, b)])
    sa, sb = S.sort_of(a), S.sort_of(b)
    if sa is not None and sb is not None:
        return S.eq(a, b)
    return a is b


def seq_eq(a, b):
    """element-wise equality of two accumulator lists that may contain Segs"""
    if len(a) != len(b):
        return False
    conds = []
    for x, y in zip(a, b):
        if isinstance(x, Seg) or isinstance(y, Seg):
            if not (isinstance(x, Seg) and isinstance(y, Seg)):
                return False
            conds.append(key_eq(x.key, y.key))
        elif isinstance(x, (list, tuple)) and isinstance(y, (list, tuple)):
            conds.append(seq_eq(list(x), list(y)))
        else:
            sx, sy = S.sort_of(x), S.sort_of(y)
            if sx is None or sy is None:
                conds.append(x is y)
            else:
                conds.append(S.eq(x, y))
    return S.and_(*conds)


class LoopSpec:
    """Contract of one ``for`` loop (see DESIGN §3.1.4).  All methods run in the harness (symbolic or concrete)."""
    elem_cases = ["*"]

    def applies(self, iterable):
        return isinstance(iterable, AbsColl)

    def carried(self, E, L, coll):
        """havoced loop-carried state at the start of an arbitrary iteration / after the loop: dict name -> value"""
        return {}

    def exit_state(self, E, L, coll):
        """loop-carried state after the loop (default: the havoced state); L still holds the pre-loop values"""
        return self.carried(E, L, coll)

    def element(self, E, case, coll):
        raise NotImplementedError

    def inv(self, E, L):
        return ()

    def step(self, E, pre, post, elem, case):
        return ()

    def after(self, E, L, coll):
        pass


class AbsSeqList:
    """a list (or tuple) made of explicit head elements, an abstract run ``middle`` (AbsColl with a 'length'
    ghost >= 0 and an element factory), and explicit tail elements — the child list Lark hands to a
    callback whose rule contains a repetition"""

    def __init__(self, head, middle, tail, pytype=list):
        self.head = list(head)
        self.middle = middle
        self.tail = list(tail)
        self.pytype = pytype

    def length(self):
        from . import sym as S
        return S.add(len(self.head) + len(self.tail), self.middle.info["length"])

    def __repr__(self):
        return f"AbsSeqList({self.head!r} + {self.middle!r} + {self.tail!r})"


def first_of(E, coll):
    """the first element of a non-empty abstract collection (created once, by the collection's factory)"""
    if "first" not in coll.info:
        coll.info["first"] = coll.info["factory"](E, "first")
    return coll.info["first"]
