"""Verifier: contracts -> paths -> verification conditions -> z3 / cvc5 -> verdicts (+ native replay).

A *contract* is a Python object with

    target      qualified name of the repository function ("mappyfile.quoter.Quoter.add_quotes")
    cases       list of case names (finite case split of the input space chosen by the contract author;
                the union of the cases must be the function's precondition — stated in ``doc``)
    build(E, case) -> (args, kwargs)      builds the arguments from harness ``E`` (symbolic or concrete)
    ensures(E, case, args, kwargs, out) -> iterable of (clause_name, condition)
    at_call(E, *args, **kwargs) -> value  (optional) the contract as used at call sites (modular)
    modifies    None (unchecked) or a tuple of argument indexes that may be written; () = pure

``build`` and ``ensures`` are ordinary Python over ``pyvc.sym`` helpers, so the same text is run
symbolically (proof) and on concrete values (native replay, bounded stand-in).
"""
from __future__ import annotations
import inspect
import os
import subprocess
import tempfile
import time
import traceback

import z3

from . import sym as S
from .sym import Sym, is_sym
from . import front
from .engine import (Ctx, Interp, PyRaise, OutOfReach, _DeadPath, MDict, TokenM, PathLimit, LoopBodyDone)

Z3_TIMEOUT_MS = int(os.environ.get("PYVC_Z3_MS", "10000"))
CVC5_TIMEOUT_S = int(os.environ.get("PYVC_CVC5_S", "30"))
MAX_PATHS = int(os.environ.get("PYVC_MAX_PATHS", "400"))


class Outcome:
    def __init__(self, kind, value=None, exc=None, exc_args=(), where=None):
        self.kind = kind        # 'return' | 'raise'
        self.value = value
        self.exc = exc
        self.exc_args = exc_args
        self.where = where

    def raised(self, *types):
        return self.kind == "raise" and (not types or issubclass(self.exc, types))

    def __repr__(self):
        if self.kind == "return":
            return f"return {self.value!r}"
        if self.kind in ("lemma", "loop-body"):
            return self.kind
        return f"raise {self.exc.__name__}{self.exc_args!r} at {self.where}"


class SymE:
    """Harness in symbolic mode."""
    symbolic = True

    def __init__(self, ctx: Ctx, interp: Interp):
        self.ctx = ctx
        self.interp = interp

    def _mk(self, sort, name):
        if name in self.ctx.symbols:
            raise ValueError("duplicate symbol " + name)
        s = S.fresh(sort, name)
        self.ctx.symbols[name] = s
        return s

    def str(self, name):
        return self._mk(S.STR, name)

    def int(self, name):
        return self._mk(S.INT, name)

    def bool(self, name):
        return self._mk(S.BOOL, name)

    def real(self, name):
        return self._mk(S.REAL, name)

    def assume(self, cond):
        self.ctx.assume(cond)

    def require(self, name, cond):
        self.ctx.require(name, cond)

    def fresh(self, sort, hint="r"):
        return self.ctx.fresh(sort, hint)

    def token(self, type_, text, value=None, line=None, column=None, **ghost):
        return TokenM(type_, text, value, line, column, **ghost)

    def odict(self, pycls=None, ci=False, factory=None, entries=()):
        from collections import OrderedDict
        return MDict(pycls or OrderedDict, ci, factory, entries)

    def call(self, f, *args, **kwargs):
        """call a repository function from contract code (interpreted, so it may fork)"""
        return self.interp.call(f, list(args), kwargs)

    def call_real(self, f, *args, **kwargs):
        """interpret the BODY of repository function f (its own contract is not used for this call; callees are modular)"""
        saved = self.interp.target
        self.interp.target = f
        try:
            return self.interp.call_function(f, list(args), kwargs)
        finally:
            self.interp.target = saved

    def absdict(self, name, entries=(), pycls=None, ci=False, factory=None, absent=()):
        """a dict with the given explicit entries followed/preceded by an unknown number of further items
        (an abstract tail); keys in ``absent`` are known not to occur in the tail"""
        from .absx import AbsColl
        d = self.odict(pycls, ci, factory, entries)
        d.tail = dict(items=AbsColl(name + ".items", owner=d, view="items"), keys=AbsColl(name + ".keys", owner=d, view="keys"),
                      values=AbsColl(name + ".values", owner=d, view="values"), absent=tuple(absent), facts=[])
        return d

    def abslist(self, name, **info):
        from .absx import AbsColl
        return AbsColl(name, **info)

    def absseq(self, name, head, factory, tail, pytype=list, min_len=0):
        """head ++ (an unknown number >= min_len of elements made by factory(E, tag)) ++ tail"""
        from .absx import AbsColl, AbsSeqList
        n = self.int(name + ".n")
        self.assume(n >= min_len)
        mid = AbsColl(name + ".run", length=n, factory=factory, pytype=list)
        return AbsSeqList(head, mid, tail, pytype)


class ConcE:
    """Harness in concrete mode: symbols take the values of a model (replay) or of a generator."""
    symbolic = False

    def __init__(self, values, strict=True):
        self.values = values
        self.strict = strict
        self.assumption_failed = None
        self.required_failed = []
        self._n = 0

    def _get(self, name, default):
        if name in self.values:
            return self.values[name]
        if self.strict:
            return default
        raise KeyError(name)

    def str(self, name):
        return self._get(name, "")

    def int(self, name):
        return self._get(name, 0)

    def bool(self, name):
        return self._get(name, False)

    def real(self, name):
        return float(self._get(name, 0.0))

    def assume(self, cond):
        if not cond and self.assumption_failed is None:
            self.assumption_failed = True

    def require(self, name, cond):
        if not cond:
            self.required_failed.append(name)

    def fresh(self, sort, hint="r"):
        self._n += 1
        return self._get(f"{hint}!{self._n}", {"str": "", "int": 0, "bool": False, "real": 0.0}[sort])

    def token(self, type_, text, value=None, line=None, column=None, **ghost):
        from lark.lexer import Token
        t = Token(type_, text, line=line, column=column)
        if value is not None:
            t.value = value
        for k, v in ghost.items():
            try:
                setattr(t, k, v)
            except AttributeError:
                pass
        return t

    def odict(self, pycls=None, ci=False, factory=None, entries=()):
        from collections import OrderedDict
        cls = pycls or OrderedDict
        from mappyfile.ordereddict import DefaultOrderedDict
        if issubclass(cls, DefaultOrderedDict):
            d = cls(factory)
        else:
            d = cls()
        for k, v in entries:
            d[k] = v
        return d

    def call(self, f, *args, **kwargs):
        return f(*args, **kwargs)

    def absdict(self, name, entries=(), pycls=None, ci=False, factory=None, absent=()):
        return self.odict(pycls, ci, factory, entries)

    def abslist(self, name, **info):
        return []

    def absseq(self, name, head, factory, tail, pytype=list, min_len=0):
        n = max(self.int(name + ".n"), min_len)
        return pytype(list(head) + [factory(self, f"m{i}") for i in range(n)] + list(tail))


# ---------------------------------------------------------------------------------------------
# solving
# ---------------------------------------------------------------------------------------------

def _model_value(m, t):
    v = m.eval(t, model_completion=True)
    if z3.is_string_value(v):
        return v.as_string()
    if z3.is_int_value(v):
        return v.as_long()
    if z3.is_true(v):
        return True
    if z3.is_false(v):
        return False
    if z3.is_rational_value(v):
        return float(v.numerator_as_long()) / float(v.denominator_as_long())
    if z3.is_algebraic_value(v):
        return float(v.approx(10).as_fraction())
    return None


def _z3_unescape(s):
    # z3 prints non-ASCII / control characters as \u{XXXX}
    import re
    return re.sub(r"\\u\{([0-9a-fA-F]+)\}", lambda m: chr(int(m.group(1), 16)), s)


def _ground_refinements(m, formulas):
    """True ground facts about CPython for UF applications whose model interpretation is wrong."""
    apps, seen = [], set()
    for f in formulas:
        S._collect_apps(f, set(S.UF_NATIVE), apps, seen)
    facts = []
    for a in apps:
        name = a.decl().name()
        argv = [_model_value(m, a.arg(i)) for i in range(a.num_args())]
        if any(v is None for v in argv):
            continue
        argv = [_z3_unescape(v) if isinstance(v, str) else v for v in argv]
        if name == "py_rep" and (argv[1] > 10000 or len(argv[0]) * max(argv[1], 0) > 100000):
            continue
        try:
            true_val = S.UF_NATIVE[name](*argv)
        except Exception:
            continue
        got = _model_value(m, a)
        if isinstance(got, str):
            got = _z3_unescape(got)
        if got != true_val:
            decl = a.decl()
            facts.append(decl(*[S.term(v) for v in argv]) == S.term(true_val))
    return facts


def solve_valid(pc, goal, timeout_ms=None, use_cvc5=True, names=()):
    """Is  /\\ pc  =>  goal  valid?  Returns dict(verdict, backend, time, model, rounds)."""
    t0 = time.time()
    timeout_ms = timeout_ms or Z3_TIMEOUT_MS
    fs = list(pc) + [z3.Not(goal)]
    extra = []
    rounds = 0
    while True:
        s = z3.Solver()
        s.set("timeout", timeout_ms)
        s.add(*fs)
        s.add(*extra)
        s.add(*S.axioms_for(fs + extra))
        r = s.check()
        if r == z3.unsat:
            return dict(verdict="proved", backend="z3", time=time.time() - t0, rounds=rounds)
        if r == z3.sat:
            m = s.model()
            facts = _ground_refinements(m, fs + extra + S.axioms_for(fs + extra))
            if facts and rounds < 12:
                extra.extend(facts)
                rounds += 1
                continue
            return dict(verdict="refuted", backend="z3", time=time.time() - t0, model=m, rounds=rounds,
                        model_consistent=not facts)
        # unknown: z3 often still holds a candidate model (e.g. "incomplete (theory seq)" because of
        # replace_all).  If that candidate contradicts CPython on a ground UF instance, add the true
        # fact and try again — every added fact is true, so this cannot make an invalid VC provable.
        try:
            m = s.model()
            facts = _ground_refinements(m, fs + extra + S.axioms_for(fs + extra))
        except z3.Z3Exception:
            facts = []
        if facts and rounds < 12:
            extra.extend(facts)
            rounds += 1
            continue
        break
    res = dict(verdict="unknown", backend="z3", time=time.time() - t0, rounds=rounds, reason=s.reason_unknown())
    if use_cvc5:
        r5, vals = _cvc5(s.to_smt2(), CVC5_TIMEOUT_S, names)
        if r5 == "unsat":
            return dict(verdict="proved", backend="cvc5", time=time.time() - t0, rounds=rounds)
        if r5 == "sat":
            # cvc5's model is not ground-refined against CPython: it only counts once replayed natively
            return dict(verdict="refuted", backend="cvc5", time=time.time() - t0, rounds=rounds, model=None,
                        values=vals, model_consistent=False)
        res["cvc5"] = r5
    return res


def _sexpr(text):
    """tiny s-expression reader for cvc5's (get-value ...) answer"""
    i = 0
    n = len(text)

    def skip():
        nonlocal i
        while i < n and text[i].isspace():
            i += 1

    def read():
        nonlocal i
        skip()
        if text[i] == "(":
            i += 1
            out = []
            while True:
                skip()
                if text[i] == ")":
                    i += 1
                    return out
                out.append(read())
        if text[i] == '"':
            j = i + 1
            buf = []
            while True:
                if text[j] == '"':
                    if j + 1 < n and text[j + 1] == '"':
                        buf.append('"')
                        j += 2
                        continue
                    break
                buf.append(text[j])
                j += 1
            i = j + 1
            return ("str", "".join(buf))
        j = i
        while j < n and not text[j].isspace() and text[j] not in "()":
            j += 1
        tok = text[i:j]
        i = j
        return tok
    return read()


def _sval(v):
    if isinstance(v, tuple):
        return _z3_unescape(v[1])
    if isinstance(v, list):
        if len(v) == 2 and v[0] == "-":
            x = _sval(v[1])
            return -x if x is not None else None
        if len(v) == 3 and v[0] == "/":
            a, b = _sval(v[1]), _sval(v[2])
            return a / b if a is not None and b else None
        return None
    if v == "true":
        return True
    if v == "false":
        return False
    try:
        return int(v)
    except ValueError:
        try:
            return float(v)
        except ValueError:
            return None


def _cvc5(smt2, timeout_s, names=()):
    # z3 prints (declare-fun x () String) etc.; cvc5 needs a logic and --strings-exp
    lines = [l for l in smt2.splitlines() if not l.startswith("(set-info") and not l.startswith("(declare-fun py_replace ")]
    lines = [l.replace("(py_replace ", "(str.replace_all ") for l in lines]
    text = "(set-logic ALL)\n" + "\n".join(lines)
    declared = [n for n in names if ("(declare-fun %s ()" % _smt_name(n)) in text]
    if declared:
        text += "\n(get-value (%s))\n" % " ".join(_smt_name(n) for n in declared)
    with tempfile.NamedTemporaryFile("w", suffix=".smt2", delete=False, dir=os.environ.get("TMPDIR", "/var/tmp")) as f:
        f.write(text)
        path = f.name
    try:
        p = subprocess.run(["/usr/bin/cvc5", "--strings-exp", "--produce-models", f"--tlimit={timeout_s * 1000}", path],
                           capture_output=True, text=True, timeout=timeout_s + 5)
        out = p.stdout.strip()
        first = out.splitlines()[0] if out else "error:" + p.stderr.strip()[:200]
        vals = {}
        if first == "sat" and declared:
            try:
                sx = _sexpr(out[out.index("\n") + 1:])
                for (nm, v), orig in zip(sx, declared):
                    vals[orig] = _sval(v)
            except Exception:
                vals = {}
        return first, vals
    except subprocess.TimeoutExpired:
        return "timeout", {}
    finally:
        try:
            os.unlink(path)
        except OSError:
            pass


def _smt_name(n):
    import re
    return n if re.fullmatch(r"[A-Za-z_][A-Za-z0-9_]*", n) else "|" + n + "|"


# ---------------------------------------------------------------------------------------------
# exploring one (contract, case)
# ---------------------------------------------------------------------------------------------

def _reach(objs):
    """ids of the mutable objects reachable from ``objs`` (the frame of the call)."""
    seen = {}
    stack = list(objs)
    while stack:
        o = stack.pop()
        if is_sym(o) or o is None or isinstance(o, (str, int, float, bool, type, frozenset)):
            continue
        if inspect.isfunction(o) or inspect.isclass(o) or inspect.ismodule(o) or inspect.ismethod(o):
            continue
        if id(o) in seen:
            continue
        seen[id(o)] = o
        if isinstance(o, MDict):
            for k, v in o.entries:
                stack.append(v)
        elif isinstance(o, TokenM):
            stack.append(o.value)
        elif isinstance(o, dict):
            stack.extend(o.values())
        elif isinstance(o, (list, tuple, set)):
            stack.extend(o)
        elif hasattr(o, "__dict__"):
            stack.extend(vars(o).values())
    return seen


def _resolve(contract):
    if not contract.target:
        return None
    if hasattr(contract, "resolve"):
        return contract.resolve()
    return front.resolve(contract.target)


def explore(contract, case, contracts, max_paths=None, loop_mode=None):
    """All paths of the target function for one case.  Returns (paths, info); a path is a dict with
    pc, outcome, requires, writes, symbols, args."""
    fn = _resolve(contract)
    max_paths = max_paths or MAX_PATHS
    work = [[]]
    paths = []
    n_runs = 0
    while work:
        prefix = work.pop()
        n_runs += 1
        if n_runs > max_paths:
            raise PathLimit(f"more than {max_paths} paths")
        ctx = Ctx(prefix)
        interp = Interp(ctx, contracts=contracts, target=fn)
        E = SymE(ctx, interp)
        interp.E = E
        for c in contracts.values():
            for ordn, spec in getattr(c, "loops", {}).items():
                interp.loop_specs[(c.target, ordn)] = spec
        interp.loop_mode = loop_mode
        E.__dict__["loop_mode"] = loop_mode
        try:
            args, kwargs = contract.build(E, case)
            reach = _reach(list(args) + list(kwargs.values()))
            n_build = len(ctx.pc)
            try:
                if fn is None:
                    out = Outcome("lemma")
                else:
                    value = interp.call_function(fn, list(args), dict(kwargs))
                    out = Outcome("return", value)
            except PyRaise as ex:
                out = Outcome("raise", exc=ex.etype, exc_args=ex.eargs, where=ex.where)
            except LoopBodyDone:
                out = Outcome("loop-body")
        except _DeadPath:
            work.extend(ctx.alts)
            continue
        work.extend(ctx.alts)
        paths.append(dict(ctx=ctx, E=E, args=args, kwargs=kwargs, out=out, reach=reach, prefix=list(ctx.decisions),
                          n_build=n_build))
    return fn, paths


def verify_case(contract, case, contracts, want_models=True):
    """Verify one case (all loop modes); returns a list of plain-data obligation records."""
    modes = [None]
    if contract.target:
        for ordn, spec in getattr(contract, "loops", {}).items():
            only = getattr(contract, "loop_cases", {}).get(ordn)
            if only is not None and case not in only:
                continue
            outer = getattr(contract, "nested", {}).get(ordn)   # (outer ordinal, outer elem case)
            prefix = [(contract.target, outer[0], outer[1])] if outer else []
            for ec in spec.elem_cases:
                modes.append(prefix + [(contract.target, ordn, ec)])
    out = []
    for mode in modes:
        out.extend(_verify_mode(contract, case, contracts, want_models, mode))
    return out


def _verify_mode(contract, case, contracts, want_models, mode):
    t_start = time.time()
    recs = []
    qual = contract.name
    label = str(case) if mode is None else f"{case}@loop{mode[-1][1]}[{mode[-1][2]}]"
    base = dict(function=qual, case=label)
    try:
        fn, paths = explore(contract, case, contracts, loop_mode=mode)
    except OutOfReach as ex:
        return [dict(base, name=f"{qual}[{label}]", clause="*", verdict="out-of-reach", reason=str(ex), time=time.time() - t_start)]
    except PathLimit as ex:
        return [dict(base, name=f"{qual}[{label}]", clause="*", verdict="out-of-reach", reason=str(ex), time=time.time() - t_start)]
    except S.SymBoolError as ex:
        return [dict(base, name=f"{qual}[{label}]", clause="*", verdict="checker-error", reason="SymBoolError: " + str(ex) + "\n" + traceback.format_exc(), time=time.time() - t_start)]
    if not paths:
        return [dict(base, name=f"{qual}[{label}]", clause="*", verdict="vacuous", reason="no feasible path (contradictory precondition?)", time=time.time() - t_start)]
    if mode is not None and not any("loop-mode-entered" in p["ctx"].notes for p in paths):
        # the arbitrary iteration was never reached: nothing was checked for this mode
        return [dict(base, name=f"{qual}[{label}]", clause="*", verdict="vacuous", reason="loop body not reached in loop mode", time=time.time() - t_start)]
    sha = front.source_sha(fn) if fn is not None else "lemma"
    for pi, p in enumerate(paths):
        ctx, E, out = p["ctx"], p["E"], p["out"]
        clauses = []
        if out.kind != "loop-body" and mode is None:
            try:
                for name, cond in contract.ensures(E, case, p["args"], p["kwargs"], out):
                    clauses.append((name, cond, None))
            except S.SymBoolError as ex:
                recs.append(dict(base, name=f"{qual}[{label}]#p{pi}", clause="*", verdict="checker-error",
                                 reason="SymBoolError in ensures: " + traceback.format_exc()))
                continue
            except OutOfReach as ex:
                recs.append(dict(base, name=f"{qual}[{label}]#p{pi}", clause="*", verdict="out-of-reach", reason=str(ex)))
                continue
        elif out.kind == "raise" and mode is not None:
            # an exception inside the arbitrary iteration: let the contract judge it
            try:
                for name, cond in contract.ensures(E, case, p["args"], p["kwargs"], out):
                    clauses.append((name, cond, None))
            except (S.SymBoolError, OutOfReach) as ex:
                recs.append(dict(base, name=f"{qual}[{label}]#p{pi}", clause="*", verdict="out-of-reach", reason=repr(ex)))
                continue
        elif out.kind == "return" and mode is not None:
            continue   # a path that left before the loop: covered by mode None
        for name, t, n in ctx.requires:
            if mode is None or name.startswith(f"loop{mode[-1][1]}:") or not name.startswith("loop"):
                clauses.append(("requires:" + name, Sym(S.BOOL, t), n))
        mod = getattr(contract, "modifies", None)
        if mod is not None:
            allowed = set()
            for idx in mod:
                allowed |= set(_reach([p["args"][idx]]).keys())
            bad = [w for (oid, w) in ctx.writes if oid in p["reach"] and oid not in allowed]
            clauses.append(("frame:modifies" + repr(tuple(mod)), not bad, None))
            p["bad_writes"] = bad
        rd = getattr(contract, "reads", None)
        if rd is not None and out.kind != "loop-body":
            for idx, allowed in rd.items():
                oid = id(p["args"][idx])
                extra_reads = sorted({n for (o, n) in ctx.reads if o == oid and n not in allowed})
                clauses.append((f"frame:reads(arg{idx})<={sorted(allowed)}", not extra_reads, None))
                if extra_reads:
                    p["bad_writes"] = (p.get("bad_writes") or []) + ["read of ." + n for n in extra_reads]
        for cname, cond, npc in clauses:
            cond = S.truthy(cond)
            pc = ctx.pc if npc is None else ctx.pc[:npc]
            rec = dict(base, name=f"{qual}[{label}]#p{pi}:{cname}", clause=cname, path=pi, sha=sha,
                       outcome=repr(out)[:200], n_pc=len(pc))
            if not is_sym(cond):
                if cond:
                    rec.update(verdict="proved", backend="eval", time=0.0)
                else:
                    # the clause is false outright on this (feasible) path: find a witness of the path
                    r = solve_valid(pc, z3.BoolVal(False), names=list(ctx.symbols))
                    rec.update(_finish(r, contract, case, ctx, cname, want_models and mode is None, fn, extra=p.get("bad_writes")))
            else:
                r = solve_valid(pc, cond.t, names=list(ctx.symbols))
                rec.update(_finish(r, contract, case, ctx, cname, want_models and mode is None, fn))
            recs.append(rec)
    for r in recs:
        r.setdefault("time", 0.0)
    interpreted = sorted(set().union(*[p["ctx"].ghost.get("$interpreted", set()) for p in paths])) if paths else []
    recs.append(dict(base, name=f"{qual}[{label}]:paths", clause="$meta", verdict="meta", paths=len(paths),
                     time=time.time() - t_start, sha=sha, interpreted=interpreted))
    return recs


def _finish(r, contract, case, ctx, cname, want_models, fn, extra=None):
    out = dict(verdict=r["verdict"], backend=r.get("backend"), time=r.get("time", 0.0), rounds=r.get("rounds", 0))
    if r["verdict"] == "unknown":
        out["reason"] = f"z3: {r.get('reason')}; cvc5: {r.get('cvc5')}"
    if r["verdict"] == "refuted":
        m = r["model"]
        vals = {}
        if m is None:
            vals = dict(r.get("values") or {})
        else:
            for name, s in ctx.symbols.items():
                v = _model_value(m, s.t)
                if isinstance(v, str):
                    v = _z3_unescape(v)
                vals[name] = v
        out["model"] = vals
        out["model_consistent"] = r.get("model_consistent", True)
        if extra:
            out["writes"] = extra
        if want_models:
            why = None
            if ctx.ghost.get("$modular"):
                names = ", ".join(sorted(set(q.rsplit(".", 1)[-1] for q in ctx.ghost["$modular"])))[:120]
                why = "the path used callee contracts (" + names + "): a native run returns the callees' real values where the clause speaks about their summaries"
            elif ctx.ghost.get("$abstract-loop"):
                why = "the path used a loop summary / an arbitrary iteration: there is no single concrete call to run"
            elif hasattr(contract, "replay_supported") and not contract.replay_supported():
                why = "the contract's arguments are ghost models of library objects"
            # a native replay is only evidence when the real run computes the very values the clause talks about
            out["replay"] = dict(status="not-replayable", reason=why) if why else replay(contract, case, vals, cname)
    return out


def replay(contract, case, values, clause=None):
    """Run the real function natively on the concretised counter-model and evaluate the contract."""
    fn = _resolve(contract)
    E = ConcE(values)
    try:
        args, kwargs = contract.build(E, case)
    except Exception as ex:
        return dict(status="build-failed", error=repr(ex))
    if E.assumption_failed:
        return dict(status="model-violates-assumption")
    import copy
    try:
        pre = copy.deepcopy((args, kwargs))
    except Exception:
        pre = None
    try:
        if fn is None:
            out = Outcome("lemma")
        else:
            value = fn(*args, **kwargs)
            out = Outcome("return", value)
    except Exception as ex:  # native behaviour of the real code
        out = Outcome("raise", exc=type(ex), exc_args=ex.args, where="native")
    failed = []
    try:
        for name, cond in contract.ensures(E, case, args, kwargs, out):
            if not cond:
                failed.append(name)
    except Exception as ex:
        return dict(status="ensures-error", error=repr(ex), outcome=repr(out)[:300])
    mod = getattr(contract, "modifies", None)
    if mod is not None and pre is not None:
        for i, (a, b) in enumerate(zip(pre[0], args)):
            if i in mod:
                continue
            try:
                same = (a == b) or _state(a) == _state(b)
            except Exception:
                same = True
            if not same:
                failed.append("frame:modifies" + repr(tuple(mod)))
                break
    for n in E.required_failed:
        failed.append("requires:" + n)
    confirmed = (clause in failed) if clause else bool(failed)
    return dict(status="confirmed" if confirmed else ("other-clause" if failed else "not-reproduced"),
                failed=failed, outcome=repr(out)[:300],
                args=_safe_repr(args), kwargs=_safe_repr(kwargs))


def _state(o):
    if hasattr(o, "__dict__"):
        return {k: _state(v) for k, v in vars(o).items()}
    return repr(o)


def _safe_repr(x):
    try:
        return repr(x)[:600]
    except Exception:
        return "<unrepr>"
