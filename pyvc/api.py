"""Contract base class and registry."""
from __future__ import annotations

QUOTES = {"dq": '"', "sq": "'"}

REGISTRY: dict = {}      # qualified target -> contract instance   (modular call sites look here)
ALL: list = []           # every contract / lemma, in registration order


class Contract:
    target = None
    cases = ["*"]
    modifies = None
    lemma = False
    doc = ""
    props = ()           # property ids this contract serves

    def build(self, E, case):
        return (), {}

    def ensures(self, E, case, args, kwargs, out):
        return ()

    @property
    def name(self):
        return self.target or ("lemma:" + type(self).__name__)


def register(cls):
    inst = cls()
    ALL.append(inst)
    if inst.target:
        REGISTRY[inst.target] = inst
    return cls
