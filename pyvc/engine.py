"""pyvc engine: a symbolic interpreter for the Python subset used by mappyfile.

It executes the *unmodified* ``ast`` of repository functions.  Concrete values stay concrete and are
computed by CPython itself; symbolic leaves are ``sym.Sym`` terms.  Path exploration is by
re-execution with a decision prefix (no heap copying): every run rebuilds its arguments from the
contract's ``build`` function, so in-place mutation and aliasing are tracked by CPython object identity.

Exceptions raised by the interpreted program are ``PyRaise``; constructs outside the subset raise
``OutOfReach`` (never reported as a violation).
"""
from __future__ import annotations
import ast
import builtins
import inspect
import logging
import numbers
import string as _string
import types
from collections import OrderedDict

import z3

from . import sym as S
from .sym import Sym, is_sym
from . import front


class PyRaise(Exception):
    def __init__(self, etype, args=(), where=None):
        super().__init__(etype.__name__, args)
        self.etype = etype
        self.eargs = args
        self.where = where

    def __str__(self):
        return f"{self.etype.__name__}{self.eargs!r} at {self.where}"


class OutOfReach(Exception):
    pass


class NeedFork(Exception):
    pass


class PathLimit(Exception):
    pass


class _Return(Exception):
    def __init__(self, value):
        self.value = value


class _Break(Exception):
    pass


class _Continue(Exception):
    pass


class LoopBodyDone(Exception):
    """mode A of the loop rule: the arbitrary iteration has been checked; the path ends here"""


# ---------------------------------------------------------------------------------------------
# model objects
# ---------------------------------------------------------------------------------------------

class TokenM:
    """Model of lark.Token: an (immutable) str content ``text`` plus mutable attributes.
    ``ghost`` carries contract-level ghost fields (never read by repository code)."""
    _counter = 0

    def __init__(self, type_, text, value=None, line=None, column=None, end_line=None, **ghost):
        self.type = type_
        self.text = text
        self.value = text if value is None else value
        self.line = line
        self.column = column
        self.end_line = end_line
        self.ghost = dict(ghost)

    def __repr__(self):
        return f"TokenM({self.type!r}, {self.value!r})"


class MDict:
    """Model of dict / OrderedDict / mappyfile's DefaultOrderedDict / CaseInsensitiveOrderedDict with
    possibly symbolic string keys.  For the two mappyfile classes this *is* their contract (property
    C17): every str key is folded with lower(); a missing key read through [] with a default factory
    stores and returns the default ([] for object-list keys)."""

    def __init__(self, pycls=dict, ci=False, factory=None, entries=None):
        self.pycls = pycls
        self.ci = ci
        self.factory = factory
        self.entries = [list(e) for e in (entries or [])]
        self.tail = None      # None, or dict(items=AbsColl, keys=AbsColl, values=AbsColl, absent=(keys known absent))

    def __repr__(self):
        return f"MDict<{self.pycls.__name__}>({self.entries!r})"

    def fold(self, k):
        if self.ci and S.sort_of(k) == S.STR:
            return S.lower(k)
        return k

    # harness-side access by concrete key (contract code only; never forks)
    def __getitem__(self, key):
        for k, v in self.entries:
            if not is_sym(k) and k == key:
                return v
        raise KeyError(key)

    def __contains__(self, key):
        return any((not is_sym(k)) and k == key for k, _ in self.entries)

    def get(self, key, default=None):
        try:
            return self[key]
        except KeyError:
            return default

    def keys(self):
        return [k for k, _ in self.entries]

    def items(self):
        return [(k, v) for k, v in self.entries]


class SuperProxy:
    def __init__(self, cls, obj):
        self.cls = cls
        self.obj = obj


class Closure:
    def __init__(self, node, frame, name):
        self.node = node
        self.frame = frame
        self.name = name


class Frame:
    def __init__(self, locals_, globals_, cls=None, qualname="?", filename="?"):
        self.locals = locals_
        self.globals = globals_
        self.cls = cls
        self.qualname = qualname
        self.filename = filename
        self.parent = None


def _contains_symbolic(x, depth=0):
    from .absx import AbsColl, AbsSeqList, AbsMap, Seg, Ghost
    if isinstance(x, (Sym, MDict, TokenM, Closure, AbsColl, AbsSeqList, AbsMap, Seg, Ghost)):
        return True
    if depth < 3 and isinstance(x, (list, tuple)):
        return any(_contains_symbolic(y, depth + 1) for y in x)
    if depth < 3 and isinstance(x, dict):
        return any(_contains_symbolic(y, depth + 1) for y in x.values())
    return False


# ---------------------------------------------------------------------------------------------
# one path
# ---------------------------------------------------------------------------------------------

class Ctx:
    def __init__(self, prefix, solver_timeout_ms=2000):
        self.prefix = list(prefix)
        self.decisions = []
        self.pc = []            # z3 Bool terms: branch conditions + assumptions, in order
        self.alts = []          # alternative prefixes discovered on this run
        self.requires = []      # (name, z3 Bool, len(pc)) obligations raised along the path
        self.writes = []        # (id(obj), description)
        self.reads = []         # (id(obj), attribute name) of instance-attribute reads (non-interference obligations)
        self.counter = 0
        self.pure = 0
        self.timeout = solver_timeout_ms
        self.notes = []
        self.symbols = {}       # name -> Sym created through the harness (for models / replay)
        self.feas_calls = 0
        self.ghost = {}         # per-path ghost state of contract-level models (console, opened files, ...)

    def fresh(self, sort, hint="t"):
        self.counter += 1
        return S.fresh(sort, f"{hint}!{self.counter}")

    def assume(self, cond):
        cond = S.truthy(cond)
        if is_sym(cond):
            self.pc.append(cond.t)
        elif not cond:
            self.pc.append(z3.BoolVal(False))

    def require(self, name, cond):
        cond = S.truthy(cond)
        t = cond.t if is_sym(cond) else z3.BoolVal(bool(cond))
        self.requires.append((name, t, len(self.pc)))

    def _feasible(self, extra):
        self.feas_calls += 1
        s = z3.Solver()
        s.set("timeout", self.timeout)
        fs = self.pc + [extra]
        s.add(*fs)
        s.add(*S.axioms_for(fs))
        r = s.check()
        return r != z3.unsat

    def branch(self, cond):
        """Concrete truth value of ``cond`` on this path (forking when it is symbolic)."""
        cond = S.truthy(cond)
        if not is_sym(cond):
            return bool(cond)
        if self.pure:
            raise NeedFork()
        i = len(self.decisions)
        if i < len(self.prefix):
            d = self.prefix[i]
        else:
            ft = self._feasible(cond.t)
            ff = self._feasible(z3.Not(cond.t))
            if ft and ff:
                self.alts.append(self.decisions + [False])
                d = True
            elif ft:
                d = True
            elif ff:
                d = False
            else:
                # path condition itself is infeasible: stop exploring this path
                raise _DeadPath()
        self.decisions.append(d)
        self.pc.append(cond.t if d else z3.Not(cond.t))
        return d

    def log_write(self, obj, what):
        self.writes.append((id(obj), what))


class _DeadPath(Exception):
    pass


# ---------------------------------------------------------------------------------------------
# interpreter
# ---------------------------------------------------------------------------------------------

_LOGGER_METHODS = {"debug", "info", "warning", "error", "exception", "critical", "warn", "log"}

MUTATING_LIST_METHODS = {"append", "extend", "insert", "pop", "remove", "clear", "sort", "reverse", "__iadd__"}


class Interp:
    def __init__(self, ctx: Ctx, contracts=None, target=None, max_depth=40):
        self.ctx = ctx
        self.contracts = contracts or {}
        self.target = target          # function object under verification: its own contract is not used
        self.depth = 0
        self.max_depth = max_depth
        self.E = None                 # harness API, set by the verifier
        self.call_log = []            # (qualname, args) of modular calls, for evidence / debugging
        self.in_target = 0
        self.loop_specs = {}          # (qualname, ordinal) -> LoopSpec
        self.loop_mode = None         # None (skip loops by their contract) or [(qualname, ordinal, elem_case), ...] outermost first
        self.loop_mode_used = 0

    # -- function calls ------------------------------------------------------------------------
    def call_function(self, fn, args, kwargs, bound_self=None):
        """Interpret repository function object ``fn`` (a plain function)."""
        node, cls, filename = front.func_ast(fn)
        qual = f"{fn.__module__}.{fn.__qualname__}"
        for dec in getattr(node, "decorator_list", []):
            # decorators are dropped by the extraction; that is only sound for the ones known not to change what a call does
            dtxt = ast.unparse(dec.func if isinstance(dec, ast.Call) else dec)
            if not (dtxt.startswith("click.") or dtxt.startswith("main.") or dtxt in front.TRANSPARENT_DECORATORS):
                raise OutOfReach(f"decorator @{dtxt} on {qual} is not in the list of decorators the extraction may drop")
        if fn.__name__.startswith("__") and not fn.__name__.endswith("__") and "." in fn.__qualname__:
            clsname = fn.__qualname__.rsplit(".", 1)[0].rsplit(".", 1)[-1]
            qual = f"{fn.__module__}.{fn.__qualname__.rsplit('.', 1)[0]}._{clsname.lstrip('_')}{fn.__name__}"
        contract = self.contracts.get(qual)
        if contract is not None and (fn is not self.target or self.in_target > 0) and hasattr(contract, "at_call"):
            self.call_log.append(qual)
            self.ctx.ghost.setdefault("$modular", []).append(qual)      # this path used a callee's contract instead of its body
            return contract.at_call(self.E, *args, **kwargs)
        if self.depth > self.max_depth:
            raise OutOfReach(f"recursion depth exceeded in {qual}")
        self.ctx.ghost.setdefault("$interpreted", set()).add(qual)      # which repository bodies this path executed (evidence / mutation analysis)
        pycls = None
        if cls is not None:
            # the real class object (for super() and name mangling)
            mod = inspect.getmodule(fn)
            pycls = _find_class(mod, fn.__qualname__.rsplit(".", 1)[0])
        frame = Frame({}, fn.__globals__, cls=pycls, qualname=qual, filename=filename)
        self._bind_args(node, frame, args, kwargs, fn)
        self.depth += 1
        if fn is self.target:
            self.in_target += 1
        try:
            self.exec_block(node.body, frame)
        except _Return as r:
            return r.value
        finally:
            self.depth -= 1
            if fn is self.target:
                self.in_target -= 1
        return None

    def _bind_args(self, node, frame, args, kwargs, fn=None, closure_frame=None):
        a = node.args
        params = [p.arg for p in a.posonlyargs + a.args]
        defaults = a.defaults
        args = list(args)
        kwargs = dict(kwargs)
        n_no_default = len(params) - len(defaults)
        for i, p in enumerate(params):
            if i < len(args):
                frame.locals[p] = args[i]
                if p in kwargs:
                    raise PyRaise(TypeError, (f"multiple values for argument {p}",), frame.qualname)
            elif p in kwargs:
                frame.locals[p] = kwargs.pop(p)
            elif i >= n_no_default:
                dflt = defaults[i - n_no_default]
                frame.locals[p] = self.eval(dflt, closure_frame or Frame({}, frame.globals))
            else:
                raise PyRaise(TypeError, (f"missing required argument {p}",), frame.qualname)
        extra = args[len(params):]
        if a.vararg:
            frame.locals[a.vararg.arg] = tuple(extra)
        elif extra:
            raise PyRaise(TypeError, ("too many positional arguments",), frame.qualname)
        for p, d in zip(a.kwonlyargs, a.kw_defaults):
            if p.arg in kwargs:
                frame.locals[p.arg] = kwargs.pop(p.arg)
            elif d is not None:
                frame.locals[p.arg] = self.eval(d, closure_frame or Frame({}, frame.globals))
            else:
                raise PyRaise(TypeError, (f"missing keyword-only argument {p.arg}",), frame.qualname)
        if a.kwarg:
            frame.locals[a.kwarg.arg] = kwargs
        elif kwargs:
            raise PyRaise(TypeError, (f"unexpected keyword arguments {sorted(kwargs)}",), frame.qualname)

    def call_closure(self, c: Closure, args, kwargs):
        frame = Frame({}, c.frame.globals, cls=c.frame.cls, qualname=c.frame.qualname + "." + c.name,
                      filename=c.frame.filename)
        frame.parent = c.frame
        self._bind_args(c.node, frame, args, kwargs, closure_frame=c.frame)
        if self.depth > self.max_depth:
            raise OutOfReach("recursion depth exceeded in closure " + c.name)
        self.depth += 1
        try:
            if isinstance(c.node, ast.Lambda):
                return self.eval(c.node.body, frame)
            self.exec_block(c.node.body, frame)
        except _Return as r:
            return r.value
        finally:
            self.depth -= 1
        return None

    def call(self, f, args, kwargs, node=None, frame=None):
        from . import models
        # interpreter-level callables
        if isinstance(f, Closure):
            return self.call_closure(f, args, kwargs)
        if isinstance(f, models.BoundModel):
            return f(self, *args, **kwargs)
        # bound methods of real objects
        if isinstance(f, types.MethodType):
            func, selfobj = f.__func__, f.__self__
            from .absx import Ghost
            if isinstance(selfobj, Ghost):
                return f(self, *args, **kwargs)
            mm = models.lookup(func)
            if mm is not None:
                return mm(self, selfobj, *args, **kwargs)
            if front.is_repo_function(func):
                return self.call_function(func, [selfobj] + list(args), kwargs)
            if isinstance(selfobj, logging.Logger) and func.__name__ in _LOGGER_METHODS:
                return None
            if isinstance(selfobj, Sym):
                return f(*args, **kwargs)
        if isinstance(f, types.FunctionType) and front.is_repo_function(f):
            return self.call_function(f, list(args), kwargs)
        if inspect.isclass(f):
            return self.instantiate(f, args, kwargs)
        m = models.lookup(f)
        if m is not None:
            return m(self, *args, **kwargs)
        # native call: only on fully concrete arguments
        if _contains_symbolic(args) or _contains_symbolic(kwargs) or _contains_symbolic(getattr(f, "__self__", None)):
            mm = models.lookup_method(f)
            if mm is not None:
                return mm(self, f.__self__, *args, **kwargs)
            raise OutOfReach(f"native call {getattr(f, '__qualname__', f)!r} with symbolic arguments")
        return self.native(f, args, kwargs)

    def native(self, f, args, kwargs):
        selfobj = getattr(f, "__self__", None)
        name = getattr(f, "__name__", "")
        if isinstance(selfobj, (list, dict, set)) and (name in MUTATING_LIST_METHODS or name in
                                                     ("update", "setdefault", "popitem", "move_to_end", "add", "discard")):
            self.ctx.log_write(selfobj, f"{type(selfobj).__name__}.{name}")
        try:
            return f(*args, **kwargs)
        except (OutOfReach, PyRaise, NeedFork, _DeadPath, S.SymBoolError):
            raise
        except Exception as ex:  # the native callee raised: that is program behaviour
            raise PyRaise(type(ex), ex.args, getattr(f, "__qualname__", str(f)))

    def instantiate(self, cls, args, kwargs):
        from . import models
        m0 = models.lookup(cls)
        if m0 is not None:
            return m0(self, *args, **kwargs)
        m = models.lookup_class(cls)
        if m is not None:
            return m(self, cls, *args, **kwargs)
        if issubclass(cls, BaseException):
            return cls(*[a if not is_sym(a) else repr(a) for a in args])
        init = inspect.getattr_static(cls, "__init__", None)
        if isinstance(init, types.FunctionType) and front.is_repo_function(init):
            obj = cls.__new__(cls)
            self.call_function(init, [obj] + list(args), kwargs)
            return obj
        if _contains_symbolic(args) or _contains_symbolic(kwargs):
            raise OutOfReach(f"constructor {cls.__name__} with symbolic arguments")
        return self.native(cls, args, kwargs)

    # -- statements ------------------------------------------------------------------------------
    def exec_block(self, stmts, frame):
        for st in stmts:
            self.exec(st, frame)

    def exec(self, st, frame):
        m = getattr(self, "x_" + type(st).__name__, None)
        if m is None:
            raise OutOfReach(f"statement {type(st).__name__} at {frame.qualname}:{st.lineno}")
        return m(st, frame)

    def x_Expr(self, st, frame):
        if isinstance(st.value, ast.Constant):
            return  # docstring
        self.eval(st.value, frame)

    def x_Pass(self, st, frame):
        pass

    def x_Return(self, st, frame):
        raise _Return(self.eval(st.value, frame) if st.value is not None else None)

    def x_Break(self, st, frame):
        raise _Break()

    def x_Continue(self, st, frame):
        raise _Continue()

    def x_Assign(self, st, frame):
        v = self.eval(st.value, frame)
        for tgt in st.targets:
            self.assign(tgt, v, frame)

    def x_AnnAssign(self, st, frame):
        if st.value is not None:
            self.assign(st.target, self.eval(st.value, frame), frame)

    def x_AugAssign(self, st, frame):
        cur = self.eval(_load(st.target), frame)
        rhs = self.eval(st.value, frame)
        if isinstance(cur, list) and isinstance(st.op, ast.Add):
            from .absx import AbsMap, Seg
            if isinstance(rhs, AbsMap):
                rhs = [Seg("comprehension", rhs)]
            if not isinstance(rhs, (list, tuple)):
                if isinstance(rhs, (Sym, TokenM)) or rhs is None or isinstance(rhs, (int, float)):
                    raise PyRaise(TypeError, ("object is not iterable",), frame.qualname)
                rhs = list(self.iterate(rhs))
            self.ctx.log_write(cur, "list +=")
            cur.extend(rhs)
            v = cur
        else:
            v = self.binop(st.op, cur, rhs, frame)
        self.assign(st.target, v, frame)

    def x_If(self, st, frame):
        if self.ctx.branch(self.truth(self.eval(st.test, frame))):
            self.exec_block(st.body, frame)
        else:
            self.exec_block(st.orelse, frame)

    def _loop_ordinal(self, st):
        fn = st
        while not isinstance(fn, (ast.FunctionDef, ast.Module)):
            fn = fn._parent
        table = getattr(fn, "_loop_ord", None)
        if table is None:
            table = {}
            n = 0

            def visit(node):
                nonlocal n
                for ch in ast.iter_child_nodes(node):
                    if isinstance(ch, (ast.For, ast.While)):
                        n += 1
                        table[id(ch)] = n
                    visit(ch)
            visit(fn)
            fn._loop_ord = table
        return table[id(st)]

    def abstract_loop(self, st, frame, coll, spec, key):
        E, ctx = self.E, self.ctx
        tag = f"loop{key[1]}"
        ctx.ghost["$abstract-loop"] = True          # this path used a loop summary / an arbitrary iteration
        for name, c in spec.inv(E, frame.locals):
            ctx.require(f"{tag}:init:{name}", c)
        entry_pre = dict(frame.locals)

        def entry_conditions(new_state, check_prefix):
            # entry conditions of the abstraction itself: every loop-carried name is bound before the loop, and a list
            # accumulator that the spec replaces by its summary either starts empty or is kept as the prefix of the summary
            for nm in sorted(new_state):
                if nm not in entry_pre:
                    ctx.require(f"{tag}:entry:{nm}-bound-before-the-loop", False)
                    continue
                pv, xv = entry_pre[nm], new_state[nm]
                if check_prefix and isinstance(pv, list) and pv and isinstance(xv, list):
                    ctx.require(f"{tag}:entry:{nm}-prefix-kept", len(xv) >= len(pv) and all(a is b for a, b in zip(pv, xv)))
        modes = self.loop_mode or []
        depth = self.loop_mode_used or 0
        mode = modes[depth] if depth < len(modes) else None
        if mode is not None and (mode[0], mode[1]) == key:
            self.loop_mode_used = depth + 1
            innermost = (depth + 1 == len(modes))
            if innermost:
                ctx.notes.append("loop-mode-entered")
            case = mode[2]
            carried = spec.carried(E, frame.locals, coll)
            entry_conditions(carried, False)
            frame.locals.update(carried)
            for name, c in spec.inv(E, frame.locals):
                ctx.assume(c)
            elem = spec.element(E, case, coll)
            from .absx import facts_for
            for c in facts_for(coll, elem):
                ctx.assume(c)
            pre = {k: (list(v) if isinstance(v, list) else v) for k, v in frame.locals.items()}
            snap = {}
            cands = list(frame.locals.values()) + [elem] + (list(elem) if isinstance(elem, (list, tuple)) else [])
            for o in list(cands):
                dd = getattr(o, "__dict__", None)
                if isinstance(dd, dict) and not isinstance(o, (MDict, type)):
                    cands.extend(x for x in dd.values() if isinstance(x, MDict))
            for v in cands:
                if isinstance(v, MDict) and id(v) not in snap:
                    snap[id(v)] = [list(e) for e in v.entries]
                    for _, vv in v.entries:
                        if isinstance(vv, MDict) and id(vv) not in snap:
                            snap[id(vv)] = [list(e) for e in vv.entries]
            pre["$entries"] = snap
            self.assign(st.target, elem, frame)
            try:
                self.exec_block(st.body, frame)
            except _Continue:
                pass
            except _Break:
                raise OutOfReach("break inside a loop verified by the arbitrary-iteration rule")
            if not innermost:
                raise LoopBodyDone()    # this path of the outer iteration never reaches the inner loop
            for name, c in spec.inv(E, frame.locals):
                ctx.require(f"{tag}:preserve:{name}", c)
            for name, c in spec.step(E, pre, frame.locals, elem, case):
                ctx.require(f"{tag}:step[{case}]:{name}", c)
            raise LoopBodyDone()
        exit_state = spec.exit_state(E, frame.locals, coll)
        entry_conditions(exit_state, True)
        frame.locals.update(exit_state)
        for name, c in spec.inv(E, frame.locals):
            ctx.assume(c)
        spec.after(E, frame.locals, coll)
        self.exec_block(st.orelse, frame)

    def x_For(self, st, frame):
        it = self.eval(st.iter, frame)
        from .absx import AbsSeqList
        if isinstance(it, AbsSeqList) and not it.head and not it.tail:
            it = it.middle
        if self.loop_specs:
            key = (frame.qualname, self._loop_ordinal(st))
            spec = self.loop_specs.get(key)
            if spec is not None and spec.applies(it):
                return self.abstract_loop(st, frame, it, spec, key)
        broke = False
        for x in self.iterate(it):
            self.assign(st.target, x, frame)
            try:
                self.exec_block(st.body, frame)
            except _Break:
                broke = True
                break
            except _Continue:
                continue
        if not broke:
            self.exec_block(st.orelse, frame)

    def x_While(self, st, frame):
        n = 0
        while self.ctx.branch(self.truth(self.eval(st.test, frame))):
            n += 1
            if n > 64:
                raise OutOfReach("while loop unrolled more than 64 times")
            try:
                self.exec_block(st.body, frame)
            except _Break:
                break
            except _Continue:
                continue

    def x_Assert(self, st, frame):
        if not self.ctx.branch(self.truth(self.eval(st.test, frame))):
            raise PyRaise(AssertionError, (), f"{frame.qualname}:{st.lineno}")

    def x_Raise(self, st, frame):
        if st.exc is None:
            cur = frame.locals.get("$exc")
            if cur is None:
                raise OutOfReach("bare raise outside except")
            raise cur
        exc = self.eval(st.exc, frame)
        if inspect.isclass(exc):
            raise PyRaise(exc, (), f"{frame.qualname}:{st.lineno}")
        if isinstance(exc, PyRaise):
            raise exc
        if isinstance(exc, BaseException):
            raise PyRaise(type(exc), exc.args, f"{frame.qualname}:{st.lineno}")
        raise OutOfReach("raise of a non-exception")

    def x_Try(self, st, frame):
        if st.finalbody:
            raise OutOfReach("try/finally")
        try:
            self.exec_block(st.body, frame)
        except PyRaise as ex:
            for h in st.handlers:
                if h.type is None:
                    match = True
                else:
                    t = self.eval(h.type, frame)
                    match = issubclass(ex.etype, t)
                if match:
                    saved = frame.locals.get("$exc")
                    frame.locals["$exc"] = ex
                    if h.name:
                        frame.locals[h.name] = ex
                    try:
                        self.exec_block(h.body, frame)
                    finally:
                        frame.locals["$exc"] = saved
                    return
            raise
        else:
            self.exec_block(st.orelse, frame)

    def x_With(self, st, frame):
        from . import models
        if len(st.items) != 1:
            raise OutOfReach("with: several items")
        item = st.items[0]
        cm = self.eval(item.context_expr, frame)
        if isinstance(cm, models.FileModel):
            if item.optional_vars is not None:
                self.assign(item.optional_vars, cm, frame)
            self.exec_block(st.body, frame)
            return
        if _contains_symbolic(cm) or not hasattr(cm, "__enter__"):
            raise OutOfReach("with on a non-modelled context manager")
        # a real (concrete) context manager, e.g. an open schema file: run it natively
        v = cm.__enter__()
        try:
            if item.optional_vars is not None:
                self.assign(item.optional_vars, v, frame)
            self.exec_block(st.body, frame)
        finally:
            cm.__exit__(None, None, None)

    def x_FunctionDef(self, st, frame):
        frame.locals[st.name] = Closure(st, frame, st.name)

    def x_Delete(self, st, frame):
        from . import models
        for tgt in st.targets:
            if isinstance(tgt, ast.Subscript):
                obj = self.eval(tgt.value, frame)
                key = self.eval(tgt.slice, frame)
                models.delitem(self, obj, key)
            elif isinstance(tgt, ast.Name):
                frame.locals.pop(tgt.id, None)
            else:
                raise OutOfReach("del of " + type(tgt).__name__)

    def x_Import(self, st, frame):
        raise OutOfReach("import inside a function")

    x_ImportFrom = x_Import

    def x_Global(self, st, frame):
        raise OutOfReach("global statement")

    x_Nonlocal = x_Global

    # -- assignment targets ------------------------------------------------------------------------
    def assign(self, tgt, v, frame):
        from . import models
        if isinstance(tgt, ast.Name):
            frame.locals[tgt.id] = v
        elif isinstance(tgt, (ast.Tuple, ast.List)):
            vals = list(self.iterate(v))
            if len(vals) != len(tgt.elts):
                raise PyRaise(ValueError, (f"cannot unpack {len(vals)} values into {len(tgt.elts)}",), frame.qualname)
            for t, x in zip(tgt.elts, vals):
                self.assign(t, x, frame)
        elif isinstance(tgt, ast.Attribute):
            obj = self.eval(tgt.value, frame)
            name = self.mangle(tgt.attr, frame)
            if isinstance(obj, (Sym, str, int, float, tuple)) or obj is None:
                raise PyRaise(AttributeError, (f"cannot set {name}",), frame.qualname)
            self.ctx.log_write(obj, f"setattr .{name}")
            if isinstance(obj, TokenM) and name not in ("type", "value", "line", "column", "end_line", "text"):
                obj.ghost[name] = v
            else:
                setattr(obj, name, v)
        elif isinstance(tgt, ast.Subscript):
            obj = self.eval(tgt.value, frame)
            key = self.eval(tgt.slice, frame)
            models.setitem(self, obj, key, v)
        else:
            raise OutOfReach("assignment target " + type(tgt).__name__)

    def mangle(self, name, frame):
        if name.startswith("__") and not name.endswith("__") and frame.cls is not None:
            return "_" + frame.cls.__name__.lstrip("_") + name
        return name

    # -- expressions ---------------------------------------------------------------------------------
    def eval(self, e, frame):
        m = getattr(self, "e_" + type(e).__name__, None)
        if m is None:
            raise OutOfReach(f"expression {type(e).__name__} at {frame.qualname}:{getattr(e, 'lineno', '?')}")
        return m(e, frame)

    def e_Constant(self, e, frame):
        return e.value

    def e_Name(self, e, frame):
        f = frame
        while f is not None:
            if e.id in f.locals:
                return f.locals[e.id]
            f = f.parent
        if e.id in frame.globals:
            return frame.globals[e.id]
        if hasattr(builtins, e.id):
            return getattr(builtins, e.id)
        raise PyRaise(NameError, (e.id,), f"{frame.qualname}:{e.lineno}")

    def e_Attribute(self, e, frame):
        from . import models
        obj = self.eval(e.value, frame)
        name = self.mangle(e.attr, frame)
        return models.getattr_(self, obj, name, frame)

    def e_Subscript(self, e, frame):
        from . import models
        obj = self.eval(e.value, frame)
        key = self.eval(e.slice, frame)
        return models.getitem(self, obj, key)

    def e_Slice(self, e, frame):
        return slice(self.eval(e.lower, frame) if e.lower else None,
                     self.eval(e.upper, frame) if e.upper else None,
                     self.eval(e.step, frame) if e.step else None)

    def e_Tuple(self, e, frame):
        return tuple(self._elts(e.elts, frame))

    def e_List(self, e, frame):
        return list(self._elts(e.elts, frame))

    def e_Set(self, e, frame):
        vals = self._elts(e.elts, frame)
        if _contains_symbolic(vals):
            raise OutOfReach("set display with symbolic members")
        return set(vals)

    def _elts(self, elts, frame):
        out = []
        for x in elts:
            if isinstance(x, ast.Starred):
                out.extend(self.iterate(self.eval(x.value, frame)))
            else:
                out.append(self.eval(x, frame))
        return out

    def e_Dict(self, e, frame):
        d = MDict(pycls=dict)
        from . import models
        for k, v in zip(e.keys, e.values):
            if k is None:
                raise OutOfReach("dict display with **")
            models.setitem(self, d, self.eval(k, frame), self.eval(v, frame), log=False)
        return d

    def e_JoinedStr(self, e, frame):
        parts = []
        for v in e.values:
            if isinstance(v, ast.Constant):
                parts.append(v.value)
            else:
                if v.format_spec is not None or v.conversion not in (-1,):
                    raise OutOfReach("f-string format spec / conversion")
                parts.append(self.to_str(self.eval(v.value, frame)))
        return S.concat(*parts)

    def to_str(self, v):
        from . import models
        return models.py_str(self, v)

    def e_UnaryOp(self, e, frame):
        v = self.eval(e.operand, frame)
        if isinstance(e.op, ast.Not):
            return S.not_(self.truth(v))
        if isinstance(e.op, ast.USub):
            return S.arith("-", 0, v) if is_sym(v) else -v
        if isinstance(e.op, ast.UAdd):
            return v
        raise OutOfReach("unary " + type(e.op).__name__)

    def e_BinOp(self, e, frame):
        return self.binop(e.op, self.eval(e.left, frame), self.eval(e.right, frame), frame)

    def binop(self, op, a, b, frame):
        from . import models
        try:
            if isinstance(op, ast.Add):
                if isinstance(a, (list, tuple)) and isinstance(b, type(a)):
                    return a + b
                if is_sym(a) or is_sym(b):
                    return S.add(a, b)
                return self._native_binop(lambda: a + b)
            if isinstance(op, ast.Sub):
                if is_sym(a) or is_sym(b):
                    return S.arith("-", a, b)
                return self._native_binop(lambda: a - b)
            if isinstance(op, ast.Mult):
                if is_sym(a) or is_sym(b):
                    return S.mul(a, b)
                return self._native_binop(lambda: a * b)
            if isinstance(op, ast.Div):
                if is_sym(a) or is_sym(b):
                    if not self.ctx.branch(S.not_(S.eq(b, 0))):
                        raise PyRaise(ZeroDivisionError, (), frame.qualname)
                    return S.truediv(a, b)
                return self._native_binop(lambda: a / b)
            if isinstance(op, ast.FloorDiv):
                if is_sym(a) or is_sym(b):
                    if not self.ctx.branch(S.not_(S.eq(b, 0))):
                        raise PyRaise(ZeroDivisionError, (), frame.qualname)
                    return S.floordiv(a, b)
                return self._native_binop(lambda: a // b)
            if isinstance(op, ast.Mod):
                if isinstance(a, str) and not is_sym(a):
                    return models.percent_format(self, a, b)
                if is_sym(a) or is_sym(b):
                    if S.sort_of(a) == S.STR:
                        raise OutOfReach("% formatting with a symbolic template")
                    if not self.ctx.branch(S.not_(S.eq(b, 0))):
                        raise PyRaise(ZeroDivisionError, (), frame.qualname)
                    return S.mod(a, b)
                return self._native_binop(lambda: a % b)
            if isinstance(op, ast.BitOr):
                if isinstance(a, (set, frozenset)) and isinstance(b, (set, frozenset)):
                    return a | b
            if isinstance(op, ast.Sub) and isinstance(a, (set, frozenset)):
                return a - b
        except S.SymTypeError as ex:
            raise PyRaise(TypeError, ex.args, frame.qualname)
        raise OutOfReach(f"binary operator {type(op).__name__} on {type(a).__name__}/{type(b).__name__}")

    def _native_binop(self, thunk):
        try:
            return thunk()
        except S.SymBoolError:
            raise
        except Exception as ex:
            raise PyRaise(type(ex), ex.args, "binop")

    def e_BoolOp(self, e, frame):
        is_and = isinstance(e.op, ast.And)
        result = None
        vals = e.values
        for i, ve in enumerate(vals):
            v = self.eval(ve, frame)
            last = i == len(vals) - 1
            if last:
                return v if result is None else self._combine(is_and, result, v)
            t = self.truth(v)
            if not is_sym(t):
                if is_and and not t:
                    return v if result is None else self._combine(is_and, result, v)
                if (not is_and) and t:
                    return v if result is None else self._combine(is_and, result, v)
                continue  # neutral element: drop it
            # symbolic operand: try to evaluate the rest purely and build one term
            rest = ast.BoolOp(op=e.op, values=vals[i + 1:]) if len(vals) - i - 1 > 1 else vals[i + 1]
            ok = False
            self.ctx.pure += 1
            try:
                rv = self.eval(rest, frame)
                ok = S.sort_of(rv) == S.BOOL and S.sort_of(v) == S.BOOL
            except (NeedFork, PyRaise, OutOfReach):
                ok = False
            finally:
                self.ctx.pure -= 1
            if ok:
                comb = self._combine(is_and, v, rv)
                return comb if result is None else self._combine(is_and, result, comb)
            # fall back to forking on this operand (Python's short-circuit semantics)
            d = self.ctx.branch(t)
            if is_and and not d:
                return v
            if (not is_and) and d:
                return v
        return result

    def _combine(self, is_and, a, b):
        if S.sort_of(a) == S.BOOL and S.sort_of(b) == S.BOOL:
            return S.and_(a, b) if is_and else S.or_(a, b)
        raise OutOfReach("and/or over non-boolean symbolic operands")

    def e_Compare(self, e, frame):
        left = self.eval(e.left, frame)
        res = True
        for op, re_ in zip(e.ops, e.comparators):
            right = self.eval(re_, frame)
            r = self.compare(op, left, right, frame)
            res = S.and_(res, r)
            if res is False:
                return False
            left = right
        return res

    def compare(self, op, a, b, frame):
        from . import models
        try:
            if isinstance(op, ast.Eq):
                return models.py_eq(self, a, b)
            if isinstance(op, ast.NotEq):
                return S.not_(models.py_eq(self, a, b))
            if isinstance(op, (ast.Lt, ast.LtE, ast.Gt, ast.GtE)):
                o = {ast.Lt: "<", ast.LtE: "<=", ast.Gt: ">", ast.GtE: ">="}[type(op)]
                if is_sym(a) or is_sym(b):
                    if a is None or b is None:
                        raise PyRaise(TypeError, ("comparison with None",), frame.qualname)
                    return S.cmp(o, a, b)
                return self._native_binop(lambda: S.cmp(o, a, b))
            if isinstance(op, ast.In):
                return models.py_in(self, a, b)
            if isinstance(op, ast.NotIn):
                return S.not_(models.py_in(self, a, b))
            if isinstance(op, ast.Is):
                return models.py_is(a, b)
            if isinstance(op, ast.IsNot):
                return not models.py_is(a, b)
        except S.SymTypeError as ex:
            raise PyRaise(TypeError, ex.args, frame.qualname)
        raise OutOfReach("comparison " + type(op).__name__)

    def e_IfExp(self, e, frame):
        c = self.truth(self.eval(e.test, frame))
        if is_sym(c):
            # try a pure ite first
            self.ctx.pure += 1
            try:
                a = self.eval(e.body, frame)
                b = self.eval(e.orelse, frame)
                if S.sort_of(a) is not None and S.sort_of(a) == S.sort_of(b):
                    return S.ite(c, a, b)
            except (NeedFork, PyRaise, OutOfReach):
                pass
            finally:
                self.ctx.pure -= 1
        if self.ctx.branch(c):
            return self.eval(e.body, frame)
        return self.eval(e.orelse, frame)

    def e_Call(self, e, frame):
        # super() needs the frame
        if isinstance(e.func, ast.Name) and e.func.id == "super" and not e.args:
            selfobj = frame.locals.get(next(iter(frame.locals), None))
            return SuperProxy(frame.cls, selfobj)
        f = self.eval(e.func, frame)
        args = []
        for a in e.args:
            if isinstance(a, ast.Starred):
                args.extend(self.iterate(self.eval(a.value, frame)))
            else:
                args.append(self.eval(a, frame))
        kwargs = {}
        for k in e.keywords:
            if k.arg is None:
                from . import models
                kwargs.update(models.as_kwargs(self, self.eval(k.value, frame)))
            else:
                kwargs[k.arg] = self.eval(k.value, frame)
        return self.call(f, args, kwargs, node=e, frame=frame)

    def e_Lambda(self, e, frame):
        return Closure(e, frame, "<lambda>")

    def e_ListComp(self, e, frame):
        from .absx import AbsMap
        r = self._comp(e.elt, e.generators, frame)
        return r if isinstance(r, AbsMap) else list(r)

    def e_GeneratorExp(self, e, frame):
        return self._comp(e.elt, e.generators, frame)

    def e_SetComp(self, e, frame):
        vals = list(self._comp(e.elt, e.generators, frame))
        if _contains_symbolic(vals):
            raise OutOfReach("set comprehension with symbolic members")
        return set(vals)

    def e_DictComp(self, e, frame):
        raise OutOfReach("dict comprehension")

    def _comp(self, elt, gens, frame):
        inner = Frame({}, frame.globals, cls=frame.cls, qualname=frame.qualname, filename=frame.filename)
        inner.parent = frame
        if len(gens) == 1:
            from .absx import AbsColl, AbsMap
            src = self.eval(gens[0].iter, frame)
            from .absx import AbsSeqList
            if isinstance(src, AbsSeqList) and not src.head and not src.tail:
                src = src.middle
            if isinstance(src, AbsColl):
                g = gens[0]

                def apply(elem):
                    fr = Frame({}, frame.globals, cls=frame.cls, qualname=frame.qualname, filename=frame.filename)
                    fr.parent = frame
                    self.assign(g.target, elem, fr)
                    cond = True
                    self.ctx.pure += 1
                    try:
                        for c in g.ifs:
                            cond = S.and_(cond, self.truth(self.eval(c, fr)))
                        val = self.eval(elt, fr)
                    except NeedFork:
                        raise OutOfReach("comprehension over an abstract collection needs a fork")
                    finally:
                        self.ctx.pure -= 1
                    return cond, val
                return AbsMap(src, apply)
            gens = [ast.comprehension(target=gens[0].target, iter=ast.Constant(value=None), ifs=gens[0].ifs, is_async=0)]
            return self._comp_iter(elt, gens, frame, inner, first=src)
        return self._comp_iter(elt, gens, frame, inner)

    def _comp_iter(self, elt, gens, frame, inner, first=None):

        def rec(i):
            if i == len(gens):
                yield self.eval(elt, inner)
                return
            g = gens[i]
            if g.is_async:
                raise OutOfReach("async comprehension")
            src = first if (i == 0 and first is not None) else self.eval(g.iter, inner if i else frame)
            for x in self.iterate(src):
                self.assign(g.target, x, inner)
                ok = True
                for cond in g.ifs:
                    if not self.ctx.branch(self.truth(self.eval(cond, inner))):
                        ok = False
                        break
                if ok:
                    yield from rec(i + 1)
        return rec(0)

    # -- helpers ---------------------------------------------------------------------------------------
    def truth(self, v):
        from . import models
        return models.py_truth(self, v)

    def iterate(self, it):
        from . import models
        return models.py_iter(self, it)


def _load(tgt):
    import copy
    t = copy.copy(tgt)
    t.ctx = ast.Load()
    return t


def _find_class(mod, qual):
    obj = mod
    for p in qual.split("."):
        if p == "<locals>":
            return None
        obj = getattr(obj, p, None)
        if obj is None:
            return None
    return obj if inspect.isclass(obj) else None
