"""Finite tables read from the repository's schema files (through the real Validator, natively)."""
from __future__ import annotations
import json
import os
import functools

_validator = None


def shared_validator():
    global _validator
    if _validator is None:
        from mappyfile.validator import Validator
        _validator = Validator()
    return _validator


def plain(x):
    """jsonref proxies -> plain dict/list"""
    if hasattr(x, "entries") and hasattr(x, "pycls"):
        return {k: plain(v) for k, v in x.entries}
    if isinstance(x, dict):
        return {k: plain(x[k]) for k in x}
    if isinstance(x, list):
        return [plain(y) for y in x]
    return x


@functools.lru_cache(maxsize=None)
def schema_names():
    v = shared_validator()
    return tuple(sorted(f[:-5] for f in os.listdir(v.get_schemas_folder()) if f.endswith(".json")))


@functools.lru_cache(maxsize=None)
def expanded(name):
    return plain(shared_validator().get_expanded_schema(name))


@functools.lru_cache(maxsize=None)
def object_types():
    out = []
    for n in schema_names():
        s = expanded(n)
        if isinstance(s, dict) and s.get("type") == "object" and "properties" in s and "__type__" in s["properties"]:
            out.append(n)
    return tuple(out)


def slot_schema(typ, attr):
    """attr_props exactly as the printer obtains them (get_attribute_properties), as plain data"""
    props = expanded(typ)["properties"]
    return props.get(attr, {})


BLOCK_KEYS = ("metadata", "validation", "values", "connectionoptions", "pattern", "projection", "points", "config")


def _is_block_slot(attr, s):
    from mappyfile.tokens import OBJECT_LIST_KEYS, REPEATED_KEYS
    if attr.startswith("__"):
        return True
    if attr in BLOCK_KEYS or attr in OBJECT_LIST_KEYS or attr in REPEATED_KEYS:
        return True
    lv = [s] + s.get("allOf", []) + s.get("oneOf", []) if isinstance(s, dict) else []
    if isinstance(s, dict) and s.get("type") == "object":
        return True
    if isinstance(s, dict) and "allOf" in s and all(isinstance(a, dict) and a.get("type") == "object" for a in s["allOf"]):
        return True
    return False


@functools.lru_cache(maxsize=None)
def value_slots():
    """(type, keyword) for every keyword that the printer writes through format_value"""
    out = []
    for t in object_types():
        for attr, s in expanded(t)["properties"].items():
            if not _is_block_slot(attr, s):
                out.append((t, attr))
    return tuple(out)


def shape_key(s, depth=0):
    def strip(p, depth):
        if isinstance(p, dict):
            o = {}
            for k, v in p.items():
                if k in ("metadata", "title", "default", "examples", "example"):
                    continue
                if k == "description" and v != "expression":
                    continue
                if k in ("minimum", "maximum", "exclusiveMinimum", "exclusiveMaximum", "minLength", "maxLength"):
                    continue
                if depth >= 2 and k in ("properties", "patternProperties"):
                    o[k] = "..."
                    continue
                o[k] = strip(v, depth + 1)
            return o
        if isinstance(p, list):
            return [strip(x, depth + 1) for x in p]
        return p
    return json.dumps(strip(s, 0), sort_keys=True)


SPECIAL_ATTRS = ("compop", "text", "expression", "offset", "polaroffset")


def one_per_shape(slots):
    seen = {}
    for (t, a) in slots:
        k = (shape_key(slot_schema(t, a)), a if a in SPECIAL_ATTRS else "")
        seen.setdefault(k, (t, a))
    return tuple(seen.values())


def value_kinds(typ, attr):
    """value kinds the slot's schema admits (+ the empty auto-created dict, which every slot can receive
    through a read of a missing key)"""
    from spec.render import leaves
    s = slot_schema(typ, attr)
    kinds = []

    def add(k):
        if k not in kinds:
            kinds.append(k)
    for l in leaves(s):
        t = l.get("type")
        if "enum" in l:
            for e in l["enum"]:
                add("str" if isinstance(e, str) else "int")
        if t == "string":
            add("str")
        elif t == "integer":
            add("int")
        elif t == "number":
            add("int")
            add("real")
        elif t == "boolean":
            add("bool")
        elif t == "array":
            it = l.get("items")
            its = it if isinstance(it, list) else [it]
            sub = set()
            for i in its:
                for ll in leaves(i or {}):
                    tt = ll.get("type")
                    if tt in ("number", "integer"):
                        sub.add("num")
                    elif tt == "string":
                        sub.add("str")
                    elif tt == "array":
                        sub.add("nested")
            if "nested" in sub:
                continue   # pair lists are written by the block writers, not by format_value
            if sub == {"num"}:
                add("listnum")
                if l.get("minItems") == 3:
                    add("listnum3")
            elif sub == {"str"}:
                add("liststr")
            elif sub == {"num", "str"}:
                add("listnum")
                add("liststr")
                add("listmixed")
    add("emptydict")
    return kinds
