"""spec.render — what text a Mapfile dictionary value denotes (property C03), written from the property
statement and the *schemas*, not from pprint.py.

``value_text_ok(slot, attr, value, q, text)`` is a relation, not a function: where the statement leaves
freedom (a string that merely *looks like* a binding / expression in a slot whose schema does not list that
alternative) both the quoted and the verbatim form are accepted.

Works on concrete values and on pyvc symbolic values alike.
"""
from __future__ import annotations
from pyvc import sym as S

BIND_PAT = "^\\[(.*?)\\]$"
EXPR_PAT = "^\\((.*?)\\)$"
REGEX_PAT = "^/(.*?)/$"


def leaves(schema):
    """all alternative leaf schemas of a slot (oneOf / anyOf / allOf flattened)"""
    out = []
    stack = [schema]
    while stack:
        s = stack.pop(0)
        if not isinstance(s, dict):
            continue
        nested = False
        for k in ("oneOf", "anyOf", "allOf"):
            if k in s:
                stack.extend(s[k])
                nested = True
        if not nested or any(k in s for k in ("enum", "type", "pattern")):
            if isinstance(s.get("type"), list):
                # JSON-schema type list: one alternative per listed type
                for t in s["type"]:
                    one = dict(s)
                    one["type"] = t
                    out.append(one)
            else:
                out.append(s)
    return out


def slot_facts(schema):
    lv = leaves(schema)
    enums = []
    for l in lv:
        for e in l.get("enum", []):
            if isinstance(e, str) and e not in enums:
                enums.append(e)
    pats = [l.get("pattern") for l in lv if "pattern" in l]
    item_pats = []
    for l in lv:
        it = l.get("items")
        its = it if isinstance(it, list) else [it]
        for i in its:
            if isinstance(i, dict):
                for ll in leaves(i):
                    if "pattern" in ll:
                        item_pats.append(ll["pattern"])
    return dict(
        enums=enums,
        binding=BIND_PAT in pats,
        expression=EXPR_PAT in pats or any(l.get("description") == "expression" for l in lv),
        regex=REGEX_PAT in pats,
        item_binding=BIND_PAT in item_pats,
        free_string=any(l.get("type") == "string" and "enum" not in l and "pattern" not in l for l in lv),
        known=bool(schema),
        # a keyword with the single alternative "free string": every string value is a free string (quoted),
        # however much it may look like an expression, a regex or a binding
        plain_string=(len(lv) == 1 and lv[0].get("type") == "string" and "pattern" not in lv[0] and "enum" not in lv[0]
                      and lv[0].get("description") != "expression"),
    )


# enumerated words that must nevertheless be written quoted
#   "end":   a bare END closes the enclosing block (STYLE GEOMTRANSFORM "end")
#   compop:  MapServer takes COMPOP values as strings ("soft-light" is not a bare word of the reference grammar)
QUOTED_ENUM_WORDS = ("end",)
QUOTED_ENUM_KEYS = ("compop",)


def wrapped(v, a, b):
    return S.and_(S.startswith(v, a), S.endswith(v, b), S.cmp(">=", S.length(v), 2))


def looks_special(v):
    """v (taken exactly, no stripping) has the outline of a binding, expression, regex or list expression"""
    return S.or_(wrapped(v, "[", "]"), wrapped(v, "(", ")"), wrapped(v, "{", "}"), wrapped(v, "/", "/"),
                 S.endswith(v, "'i"), S.endswith(v, '"i'), S.endswith(v, "/i"),
                 S.and_(S.startswith(v, "NOT "), wrapped(S.strip(v[4:]), "(", ")")))


def conforms(facts, schema, v):
    """the string v is admitted by at least one string alternative of the slot (precondition of C03's
    'each value in the lexical class MapServer requires': a value outside every alternative has no class)"""
    alts = []
    for l in leaves(schema):
        if "enum" in l:
            es = [e for e in l["enum"] if isinstance(e, str)]
            if es:
                alts.append(S.in_const_set(S.lower(v), es))
        elif l.get("type") == "string":
            p = l.get("pattern")
            if p == BIND_PAT:
                alts.append(wrapped(v, "[", "]"))
            elif p == EXPR_PAT:
                alts.append(wrapped(v, "(", ")"))
            elif p == REGEX_PAT:
                alts.append(wrapped(v, "/", "/"))
            else:
                alts.append(True)
    if not alts:
        return True   # unknown keyword / no string alternative listed: nothing to conform to
    return S.or_(*alts)


def item_conforms(schema, v):
    """the string v is admitted as an element of a list value of the slot"""
    alts = []
    for l in leaves(schema):
        it = l.get("items")
        for i in (it if isinstance(it, list) else [it]):
            if not isinstance(i, dict):
                continue
            for ll in leaves(i):
                if ll.get("type") == "string":
                    alts.append(wrapped(v, "[", "]") if ll.get("pattern") == BIND_PAT else True)
    if not alts:
        return True
    return S.or_(*alts)


def string_text_ok(facts, attr, v, q, text):
    """acceptable printed forms of the string value v"""
    quoted = S.concat(q, v, q)
    lv = S.lower(v)
    is_enum = S.in_const_set(lv, facts["enums"]) if facts["enums"] else False
    enum_quoted = S.or_(attr in QUOTED_ENUM_KEYS, S.in_const_set(lv, QUOTED_ENUM_WORDS))
    must_verbatim = S.or_(
        S.and_(facts["binding"], wrapped(v, "[", "]"), attr != "text"),
        S.and_(facts["expression"], wrapped(v, "(", ")")),
        S.and_(facts["regex"], wrapped(v, "/", "/")),
        S.and_(attr == "expression", wrapped(v, "{", "}")),
    )
    may_verbatim = False if facts.get("plain_string") else looks_special(v)
    return S.ite(
        # an enumerated word is written bare; the statement does not fix its letter case (C01 allows the
        # case of bare enumerated values to change), so the word as stored and its upper-case form both count
        S.and_(is_enum, S.not_(enum_quoted)), S.or_(S.eq(text, S.upper(v)), S.eq(text, v)),
        S.ite(S.and_(is_enum, enum_quoted), S.eq(text, quoted),
              S.ite(must_verbatim, S.eq(text, v),
                    S.ite(may_verbatim, S.or_(S.eq(text, v), S.eq(text, quoted)),
                          S.eq(text, quoted)))))
