from props import plans


def run(tier, seed, only=None):
    return plans.run("C08", tier, seed, only=only)
