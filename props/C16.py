"""C16 — pretty-printer layout contract."""
from props import common

from props import plans
from props.plans import ALL_MODULES as MODULES

LAYOUT = ("__init__", "whitespace", "add_start_line", "add_end_line", "__format_line", "compute_aligned_max_indent",
          "compute_max_key_length", "process_attribute", "process_key_dict", "process_dict", "process_config_dict",
          "process_repeated_list", "process_projection", "format_pair_list", "format_repeated_pair_list",
          "_format", "pprint", "_add_type_comment", "process_composite_comment", "process_attribute_comment",
          "is_composite", "is_hidden_container", "__is_metadata")


def pred(c):
    if c.target is None:
        return "C16" in c.props
    if not c.target.startswith("mappyfile.pprint.PrettyPrinter."):
        return False
    name = c.target.rsplit(".", 1)[1].replace("_PrettyPrinter", "")
    return name in LAYOUT


CANARIES = [
    dict(name="child-level-not-incremented", file="mappyfile/pprint.py", old="lines += self._format(v, level + 1)",
         new="lines += self._format(v, level)", contract="mappyfile.pprint.PrettyPrinter._format", case="nocomments"),
    dict(name="END-indented-one-level-too-deep", file="mappyfile/pprint.py", old="self.add_end_line(level, 0, type_)",
         new="self.add_end_line(level, 1, type_)", contract="mappyfile.pprint.PrettyPrinter._format", case="nocomments"),
    dict(name="newline-hardcoded", file="mappyfile/pprint.py", old="self.newlinechar.join(lines)", new='"\\n".join(lines)',
         contract="mappyfile.pprint.PrettyPrinter.pprint", case="one-object"),
    dict(name="alignment-column-not-past-longest-key", file="mappyfile/pprint.py",
         old="return int((int(max_key_length / indent) + 1) * indent)", new="return int((int(max_key_length / indent)) * indent)",
         contract="mappyfile.pprint.PrettyPrinter.compute_aligned_max_indent", case="indent=4"),
]


def run(tier, seed, only=None):
    return common.standard_run(
        "C16", tier, seed, "proof", MODULES, pred, canaries=CANARIES, only=only,
        b_checks=[plans.seam("b_layout")],
        explanation=("every line-producing function of pprint.py verified against the statement's layout clauses for "
                     "symbolic indent/level/spacer/newline/flags; unbounded dictionaries and lists by loop contracts "
                     "(arbitrary-iteration rule); nested objects by _format's own contract at level+1"),
        notes=["len(key.upper()) == len(key) is assumed for keywords (ASCII keywords) in the separator-nonempty clause",
               "comment lists of length 1..3 and POINTS with 1..2 parts are shape-bounded cases"])
