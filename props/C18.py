from props import plans


def run(tier, seed, only=None):
    return plans.run("C18", tier, seed, only=only)
