from props import plans


def run(tier, seed, only=None):
    return plans.run("C12", tier, seed, only=only)
