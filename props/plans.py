"""Per-property plans: which contracts (P), tables (E), seams (B) and canaries decide each property."""
from __future__ import annotations
from props import common

ALL_MODULES = ["contracts.quoter", "contracts.pprint_c", "contracts.transformer_c", "contracts.parser_c", "contracts.validator_c",
               "contracts.utils_c", "contracts.dictutils_c", "contracts.ordereddict_c", "contracts.comments_c"]


def seam(name):
    def run(tier, seed):
        from bounded import seams, seams2, seams3
        for mod in (seams, seams2, seams3):
            if hasattr(mod, name):
                return getattr(mod, name)(tier, seed)
        raise LookupError(name)
    return run


def table(name):
    def run(tier):
        import tables
        return getattr(tables, name)(tier)
    return run


def T(c):
    return c.target or ""


def by(*needles, props=None, exclude=()):
    def pred(c):
        t = c.name
        if any(x in t for x in exclude):
            return False
        if props and any(p in c.props for p in props):
            return True
        return any(n in t for n in needles)
    return pred


PP = "mappyfile.pprint.PrettyPrinter."
TR = "mappyfile.transformer.MapfileTransformer."

CAN = dict(
    child_level=dict(name="child-level-not-incremented", file="mappyfile/pprint.py", old="lines += self._format(v, level + 1)", new="lines += self._format(v, level)", contract=PP + "_format", case="nocomments"),
    free_string_bare=dict(name="free-string-written-bare", file="mappyfile/pprint.py", old="                return value\n\n            return self.quoter.add_quotes(value)", new="                return value\n\n            return value", contract=PP + "format_value", case="class.group:str:dq"),
    hidden_key=dict(name="hidden-key-filter-weakened", file="mappyfile/pprint.py", old='if key.startswith("__") and key.endswith("__"):', new='if key.startswith("__") and key.endswith("___"):', contract=PP + "_PrettyPrinter__is_metadata", case="*"),
    enum_not_upper=dict(name="enum-branch-quotes", file="mappyfile/pprint.py", old="return str(value).upper()  # value is from a set list, no need for quote", new="return self.quoter.add_quotes(str(value))", contract=PP + "format_value", case="class.status:str:dq"),
    singleton_plural=dict(name="singleton-stored-as-list", file="mappyfile/transformer.py", old="if k in SINGLETON_COMPOSITE_NAMES:", new="if k not in SINGLETON_COMPOSITE_NAMES:", contract=TR + "composite", case="block:nopos:nocom"),
    key_not_lowered=dict(name="keyword-not-lower-cased", file="mappyfile/transformer.py", old="        return token.value.lower()", new="        return token.value", contract=TR + "key_name", case="*"),
    hexcolor_case=dict(name="hexcolor-not-lower-cased", file="mappyfile/transformer.py", old="t[0].value = self.clean_string(t[0].value).lower()", new="t[0].value = self.clean_string(t[0].value)", contract=TR + "hexcolor", case="T:DOUBLE_QUOTED_HEXCOLOR"),
    and_spelling=dict(name="and-operands-swapped", file="mappyfile/transformer.py", old='t[0].value = f"( {t[0].value} AND {t[1].value} )"', new='t[0].value = f"( {t[1].value} AND {t[0].value} )"', contract=TR + "and_test", case="tok:ss"),
    expr_never_wraps=dict(name="expression-never-wraps", file="mappyfile/transformer.py", old="        if not self.is_group(exp):\n            t[0].value", new="        if False:\n            t[0].value", contract=TR + "expression", case="tok:s"),
    stack_guard=dict(name="empty-value-stack-indexed", file="mappyfile/parser.py", old="value_stack[-1] if value_stack else None", new="value_stack[-1]", contract="mappyfile.parser.Parser.parse", case="noexpand"),
    retype_case=dict(name="retyping-case-sensitive", file="mappyfile/parser.py", old="previous = previous.upper() if isinstance(previous, str) else None", new="previous = previous if isinstance(previous, str) else None", contract="mappyfile.parser.Parser.parse", case="noexpand"),
    include_depth=dict(name="include-depth-limit-off-by-one", file="mappyfile/parser.py", old="if _nested_includes == 5:", new="if _nested_includes == 6:", contract="mappyfile.parser.Parser.load_includes", case="fn:depth=5"),
    include_root=dict(name="include-resolved-against-including-file", file="mappyfile/parser.py", old="include_text, fn=fn, _nested_includes=_nested_includes + 1", new="include_text, fn=inc_file_path, _nested_includes=_nested_includes + 1", contract="mappyfile.parser.Parser.load_includes", case="fn:depth<5"),
    version_lt=dict(name="version-bound-exclusive", file="mappyfile/validator.py", old="if version < min_version or version > max_version:", new="if version <= min_version or version > max_version:", contract="mappyfile.validator.Validator.is_valid_for_version", case="min"),
    cache_key=dict(name="cache-key-without-version", file="mappyfile/validator.py", old="cache_schema_name = schema_name + str(version)", new="cache_schema_name = schema_name", contract="mappyfile.validator.Validator.get_expanded_schema", case="version:miss"),
    message_key=dict(name="message-names-first-path-element", file="mappyfile/validator.py", old="key_idx = max(i for", new="key_idx = min(i for", contract="mappyfile.validator.Validator.create_message", case="keyword-in-list-object"),
    lowercase_keys=dict(name="keys-not-lower-cased-for-validation", file="mappyfile/validator.py", old="(k.lower(), self.convert_lowercase(v)) for k, v in x.items()", new="(k, self.convert_lowercase(v)) for k, v in x.items()", contract="mappyfile.validator.Validator.convert_lowercase", case="dict2"),
    pop_no_fold=dict(name="pop-without-key-folding", file="mappyfile/ordereddict.py", old="        return super().pop(self.__class__._k(key), *args, **kwargs)", new="        return super().pop(key, *args, **kwargs)", contract="mappyfile.ordereddict.CaseInsensitiveOrderedDict.pop", case="n=1:nodefault"),
    shallow_deepcopy=dict(name="shallow-deepcopy", file="mappyfile/ordereddict.py", old="return type(self)(self.default_factory, copy.deepcopy(list(self.items())))", new="return type(self)(self.default_factory, list(self.items()))", contract="mappyfile.ordereddict.CaseInsensitiveOrderedDict.__deepcopy__", case="nested"),
    overwrite_flag=dict(name="overwrite-flag-inverted", file="mappyfile/dictutils.py", old="if overwrite is True or k not in d1:", new="if overwrite is True or k in d1:", contract="mappyfile.dictutils.update", case="scalar:keep"),
    find_defaulting=dict(name="find-indexes-without-membership-test", file="mappyfile/dictutils.py", old="item for item in lst if k in item and item[k] == value), None", new="item for item in lst if item[k] == value), None", contract="mappyfile.dictutils.find", case="mapfile:m"),
    loader_flags=dict(name="load-swaps-flags", file="mappyfile/utils.py", old="    p = Parser(\n        expand_includes=expand_includes, include_comments=include_comments, **kwargs\n    )\n    ast = p.load(fp)", new="    p = Parser(\n        expand_includes=expand_includes, include_comments=include_position, **kwargs\n    )\n    ast = p.load(fp)", contract="mappyfile.utils.load", case="symbolic-flags"),
    exit_status=dict(name="exit-status-wraps", file="mappyfile/cli.py", old="sys.exit(min(errors, 255))", new="sys.exit(errors)", contract="mappyfile.cli.validate", case="some-files"),
    comment_attach=dict(name="comment-attached-strictly-before", file="mappyfile/parser.py", old="if line_number <= line:", new="if line_number < line:", contract="mappyfile.parser.Parser._assign_comments", case="*"),
    comment_dup=dict(name="comments-duplicated", file="mappyfile/transformer.py", old='        d["__comments__"] = self.get_comments(tree.meta)\n        return d', new='        d["__comments__"] = self.get_comments(tree.meta) * 2\n        return d', contract="mappyfile.transformer.CommentsTransformer._save_attr_comments", case="some"),
    position_line=dict(name="position-swaps-line-column", file="mappyfile/transformer.py", old='        d["line"] = line\n        d["column"] = column', new='        d["line"] = column\n        d["column"] = line', contract=TR + "create_position_dict", case="none"),
    stable_partition=dict(name="complex-types-moved-to-front", file="mappyfile/dictutils.py", old="    ordered_dict.move_to_end(key)", new="    ordered_dict.move_to_end(key, last=False)", contract=PP + "separate_complex", case="on:2"),
    end_indent=dict(name="END-indented-one-level-too-deep", file="mappyfile/pprint.py", old="self.add_end_line(level, 0, type_)", new="self.add_end_line(level, 1, type_)", contract=PP + "_format", case="nocomments"),
    newline=dict(name="newline-hardcoded", file="mappyfile/pprint.py", old="self.newlinechar.join(lines)", new='"\\n".join(lines)', contract=PP + "pprint", case="one-object"),
    align=dict(name="alignment-column-not-past-longest-key", file="mappyfile/pprint.py", old="return int((int(max_key_length / indent) + 1) * indent)", new="return int((int(max_key_length / indent)) * indent)", contract=PP + "compute_aligned_max_indent", case="indent=4"),
    type_dropped=dict(name="validate-ignores-root-type", file="mappyfile/utils.py", old='return v.validate(\n        d, schema_name=str(d.get("__type__", "map")).lower(), version=version\n    )', new="return v.validate(d, version=version)", contract="mappyfile.utils.validate", case="dict"),
)

PRINTER = by("mappyfile.pprint.", "mappyfile.quoter.", "lemma:Lemma")
READER = by("mappyfile.transformer.MapfileTransformer.", "mappyfile.parser.Parser.parse", exclude=("CommentsTransformer",))

PLANS = {
 "C01": dict(level="other", pred=by(PP + "format_value", "mappyfile.quoter.", "lemma:Lemma", TR + "attr", TR + "string", TR + "int", TR + "float", TR + "true", TR + "false",
                                    TR + "hexcolor", TR + "clean_string", TR + "expression", PP + "_format", PP + "process_attribute", PP + "get_attribute_properties"),
             b=["b_roundtrip", "b_numbers"], canaries=["free_string_bare", "enum_not_upper", "hexcolor_case"],
             explanation="component contracts (printer refines spec.render per slot; reader callbacks refine the text-to-dict contract; quoting round-trip lemmas) are PROVED; that Lark's contextual lexer tokenises the printed text as intended is NOT expressible as a contract over repository code and is covered by the bounded seam loads(dumps(loads(t))) over the corpus and the complete slot vocabulary"),
 "C02": dict(level="proof", pred=READER, b=["b_text_to_dict", "b_numbers"], canaries=["singleton_plural", "key_not_lowered", "hexcolor_case"],
             explanation="every transformer callback verified against the documented text-to-dict contract for the argument shapes larkshape derives from the compiled grammar; the block fold (composite) for one arbitrary item and an arbitrary accumulator; Lark's tree construction assumed and validated by the bounded text-to-dict seam"),
 "C04": dict(level="proof", pred=by(PP + "format_value", "mappyfile.quoter.", "lemma:Lemma", TR + "expression", TR + "comparison", TR + "and_test", TR + "or_test", TR + "not_expression", PP + "pprint", PP + "_format", PP + "process_dict", PP + "process_key_dict", PP + "process_config_dict", PP + "process_repeated_list", PP + "process_projection", PP + "process_attribute", PP + "get_attribute_properties"),
             e=["c12_tables"], b=["b_idempotent", "b_escape_idempotent", "b_numbers", "b_is_group"], canaries=["enum_not_upper", "expr_never_wraps"],
             explanation="printer-side clauses (normal-form value text per slot, no parentheses piled up on re-parsing, determinism by purity: no time/random/id/hash, no module state) proved; idempotence of escape_quotes (replace chains: both solvers give up) and the lexer seam are bounded"),
 "C05": dict(level="other", pred=by(TR + "key_name", TR + "clean_string", TR + "attr", TR + "composite_type", "mappyfile.parser.Parser.parse", "mappyfile.quoter.Quoter.remove_quotes", "lemma:LemmaRoundTrip", TR + "process_value_pairs", TR + "config"),
             e=["c05_tables"], b=["b_surface"], canaries=["retype_case", "key_not_lowered"],
             explanation="E: every literal/regex terminal is case-insensitive, the ignore set is exactly COMMENT/CCOMMENT/WS/_NL with the documented patterns; P: keys lower-cased, outer quotes of either kind removed, the interactive re-typing rule is case-insensitive; that the contextual lexer yields the same tokens under every rendering is the bounded seam"),
 "C06": dict(level="proof", pred=by(PP + "separate_complex", PP + "is_complex_type", PP + "format_value", PP + "get_attribute_properties", PP + "__init__", PP + "_format", PP + "pprint",
                                    PP + "process_attribute", PP + "_PrettyPrinter__format_line", PP + "compute_max_key_length", PP + "compute_aligned_max_indent", PP + "process_dict", "mappyfile.utils._pprint", "mappyfile.utils.dump", "mappyfile.utils.save", "lemma:LemmaSeparatorNonEmpty"),
             b=["b_options"], canaries=["stable_partition", "newline"],
             explanation="content lines have the shape ws ++ KEY ++ pad(>=1 blank) ++ V where V reads no formatting option but the quote (read-set obligation on format_value); separate_complex is a stable partition (shapes 0..3 + pair-projection argument); every option is passed under its own name; the reader side is the bounded seam over the option product"),
 "C07": dict(level="proof", pred=by("mappyfile.validator.Validator.convert_lowercase", "mappyfile.validator.Validator._get_errors", "mappyfile.validator.Validator.get_error_messages",
                                    "mappyfile.validator.Validator.create_message", "mappyfile.validator.Validator.validate", "mappyfile.utils.validate", "mappyfile.validator.Validator.get_schema_path"),
             b=["b_validate"], canaries=["lowercase_keys", "message_key", "type_dropped"],
             explanation="the repository's plumbing around jsonschema is proved (lower-cased copy, one message per error in order, message names keyword/object, total, root-type schema, list = per-root); 'conforms to the schema' itself is jsonschema's verdict (assumed, validated by fault injection)"),
 "C08": dict(level="proof", pred=by(TR + "create_position_dict", TR + "flatten", TR + "attr", TR + "composite", TR + "process_value_pairs", TR + "config", TR + "int", TR + "float", TR + "string",
                                    "mappyfile.validator.Validator.create_message", "mappyfile.cli.validate", "mappyfile.parser.Parser.load_includes", "mappyfile.parser.Parser.parse"),
             e=["c08_tables"], b=["b_positions"], canaries=["position_line", "message_key"],
             explanation="position records are built from the tokens' line/column (never rewritten by value callbacks), hoisted per keyword / per occurrence; error messages carry the position of the keyword or of the object's opener; Lark's line/column assumed, validated by the bounded seam"),
 "C09": dict(level="proof", pred=by("is_valid_for_version", "get_versioned_properties", "get_versioned_schema", "get_expanded_schema", "mappyfile.validator.Validator.validate", "mappyfile.cli.schema", "HistoryVersionedSchema"),
             e=["c09_tables"], b=["b_versions"], canaries=["version_lt", "cache_key"],
             explanation="range test, recursive pruning (loop contracts), cache discipline proved; E: the pruned schema of every type equals an independent ideal prune for one representative of every class of the version partition (covers every version)"),
 "C10": dict(level="proof", pred=by(TR + "expression", TR + "not_expression", TR + "comparison", TR + "and_test", TR + "or_test", TR + "add", TR + "sub", TR + "mul", TR + "div", TR + "power", TR + "neg",
                                    TR + "func_call", TR + "func_params", TR + "attr_bind", TR + "list", TR + "regexp", TR + "compare_op"),
             e=["c10_tables"], b=["b_expressions", "b_is_group"], canaries=["and_spelling", "expr_never_wraps"],
             explanation="string equations of every expression callback proved (operands verbatim and in order, operator spellings, AND/OR/NOT); parentheses dropped only around one parenthesised group; E: the grammar's ladder is MapServer's precedence; the precedence-printing meta-theorem and is_group's character scan are validated by bounded enumeration"),
 "C11": dict(level="proof", pred=by("mappyfile.parser.Parser.parse", "mappyfile.parser.Parser.load_includes", TR + "points", TR + "pattern", TR + "projection", TR + "check_composite_tokens", TR + "attr", TR + "config"),
             b=["b_fuzz", "b_include_filename"], canaries=["stack_guard"],
             explanation="exception clause: every indexing / unpacking in parser.py's parse loop and include scan is safe for an arbitrary token and value stack (only Lark errors, or the documented ValueError/IOError of include handling, can leave); callbacks total on grammar-derivable shapes. The timing clause is NOT decidable by contracts: a bounded doubling experiment stands in"),
 "C12": dict(level="proof", pred=lambda c: getattr(c, "modifies", None) == () or "C12" in c.props,
             e=["c12_tables"], b=["b_purity"], canaries=["find_defaulting"],
             explanation="frame obligations (modifies = ()) on every query / print / validate function; fresh workers per public call and a new transformer per transform; E: no module-level mutable state, no global statements; threads: confinement argument only (no schedule explored) plus a bounded 16-thread run"),
 "C13": dict(level="proof", pred=by(TR + "composite", TR + "attr", TR + "process_value_pairs", "CommentsTransformer", "MapfileToDict.transform", PP + "_PrettyPrinter__is_metadata", PP + "_format", PP + "process_dict", PP + "compute_max_key_length", "mappyfile.utils.open", "mappyfile.utils.load", "mappyfile.utils.loads"),
             b=["b_transparent"], canaries=["hidden_key", "loader_flags"],
             explanation="composite / value-pair blocks add only __position__/__comments__ (after the data keys / at fixed places); comment pass returns the node's dict plus __comments__ only; the printer skips every __name__ key; loaders pass the flags unswapped"),
 "C14": dict(level="proof", pred=by("_assign_comments", "CommentsTransformer", PP + "process_attribute_comment", PP + "process_composite_comment", PP + "_add_type_comment", PP + "process_dict", PP + "process_key_dict", PP + "_format", TR + "composite"),
             b=["b_comments"], canaries=["comment_attach", "comment_dup"],
             explanation="comments leave comments_dict by pop exactly when attached (at most one node); a node receives the pending comments up to its line; hoisting and printing move them unchanged and once; Lark's meta.line assumed"),
 "C15": dict(level="proof", pred=by("load_includes", "_get_include_filename", "mappyfile.parser.Parser.open_file", "mappyfile.parser.Parser.load", "mappyfile.parser.Parser.parse_file", "mappyfile.parser.Parser.parse", "mappyfile.utils.open", "mappyfile.utils.load", "mappyfile.utils.loads"),
             b=["b_includes", "b_include_filename"], canaries=["include_depth", "include_root"],
             explanation="include scan and in-place splice proved against a ghost file system (depth limit 5, root-relative resolution, IOError for a missing file); file-name extraction (str.split on a symbolic string is out of reach) and the end-to-end behaviour are bounded"),
 "C17": dict(level="proof", pred=by("mappyfile.ordereddict."), b=["b_odict"], canaries=["pop_no_fold", "shallow_deepcopy"],
             explanation="every method of the two dict classes refines the reference ordered dict keyed by lower-cased keys and preserves the representation invariant (states of 0..2 symbolic keys; longer histories by the invariant); CPython's dispatch to overridden methods is assumed and validated by exhaustive short operation sequences"),
 "C18": dict(level="proof", pred=by("mappyfile.dictutils."), b=["b_update_find"], canaries=["overwrite_flag", "find_defaulting"],
             explanation="update / find / findall / findkey proved on fixed small shapes with symbolic keys and values (both overwrite modes, delete markers, None placeholders, appended items); findunique (set/sorted of symbolic values) is bounded only"),
 "C19": dict(level="other", pred=by(PP + "get_attribute_properties", TR + "plural", TR + "composite_type", "mappyfile.utils.create"), e=["c19_tables"], b=["b_vocabulary"], canaries=["singleton_plural"],
             explanation="finite and enumerated completely: table invariants over grammar x tokens.py x schemas, and every (type, keyword, value alternative, position, context) cell through the real API. Level other (not proof): three table obligations are refuted on the unchanged tree and are listed known findings (class.symbol / style.symbol stored under symbols, LABEL BACKGROUNDSHADOWSIZE default), so not every obligation is discharged"),
 "C20": dict(level="proof", pred=by("mappyfile.utils.", "mappyfile.cli.", "mappyfile.parser.Parser.open_file", "mappyfile.parser.Parser.load", "mappyfile.parser.Parser.parse_file"), b=["b_frontends"], canaries=["loader_flags", "exit_status"],
             explanation="the three loaders are the same term transform[flags](parse[flags](source)); the three writers the same _pprint term written once (UTF-8 for save); CLI format/schema are term-equal to the API calls; validate's exit status = min(problems, 255) by loop contracts with ghost counters"),
}


def run(prop, tier, seed, only=None):
    p = PLANS[prop]
    return common.standard_run(prop, tier, seed, p["level"], ALL_MODULES, p["pred"],
                               canaries=[CAN[c] for c in p.get("canaries", [])],
                               e_checks=[table(t) for t in p.get("e", [])],
                               b_checks=[seam(b) for b in p.get("b", [])],
                               explanation=p["explanation"], only=only)


# seams of the properties that have their own module (props/C03.py, props/C16.py), for tools/seed_sweep.py and tools/mkmanifest.py
EXTRA_SEAMS = {"C03": ["b_reader", "b_numbers"], "C16": ["b_layout"]}
