"""shared driver for the property modules"""
from __future__ import annotations
import importlib
import multiprocessing as mp
import os
import sys
import time

from pyvc import api, runner, front


def load_contracts(modules):
    for m in modules:
        importlib.import_module(m)


def select(pred):
    jobs = []
    for c in api.ALL:
        if pred(c):
            for case in c.cases:
                jobs.append((c.name, case))
    return jobs


def _canary_job(args):
    (suffix, old, new), cname, case, modules = args
    from pyvc import front, api, verify
    front.MUTATIONS.append((suffix, old, new))
    front._mod_cache.clear()
    try:
        for m in modules:
            importlib.import_module(m)
        c = next(x for x in api.ALL if x.name == cname)
        recs = verify.verify_case(c, case, api.REGISTRY, want_models=False)
    except LookupError as ex:
        return dict(killed=False, error=str(ex))
    bad = [r for r in recs if r["verdict"] not in ("proved", "meta")]
    return dict(killed=bool(bad), by=[r["name"] + ":" + r["verdict"] for r in bad][:3])


def run_canaries(canaries, modules):
    """canaries: list of dict(name, file, old, new, contract, case): in-memory source mutants of a function
    under contract that MUST fail a named obligation (guards against a vacuous / broken checker)"""
    if not canaries:
        return []
    ctx = mp.get_context("fork")
    out = []
    with ctx.Pool(min(8, len(canaries))) as pool:
        res = pool.map(_canary_job, [((c["file"], c["old"], c["new"]), c["contract"], c["case"], modules) for c in canaries])
    for c, r in zip(canaries, res):
        out.append(dict(name=c["name"], killed=r.get("killed", False), by=r.get("by"), error=r.get("error")))
    return out


def standard_run(prop, tier, seed, level, modules, pred, canaries=(), e_checks=(), b_checks=(), explanation="",
                 only=None, notes=()):
    rep = runner.Report(prop, tier, seed, level)
    from pyvc import sym as _S
    broken = _S.selftest_axioms()      # the string axioms are claims about CPython: re-checked (every code point) on every run
    if broken:
        rep.errors.append(("axiom-selftest", f"{len(broken)} axiom instance(s) false in this CPython: {broken[:5]}"))
    load_contracts(modules)
    jobs = select(pred)
    if only:
        jobs = [j for j in jobs if only in j[0]]
    rep.add_p(runner.run_p_jobs(jobs, modules))
    for f in e_checks:
        rep.add_e(f(tier))
    for f in b_checks:
        try:
            rep.add_b(f(tier, seed))
        except Exception:
            # a crash of a bounded seam is a checker error of that seam only (exit 3 unless an obligation is violated):
            # the deductive part of the check has already run and is reported regardless
            import traceback
            rep.errors.append(("seam:" + getattr(f, "__name__", "?"), traceback.format_exc()[-1500:]))
    if not only:
        rep.canaries = run_canaries(list(canaries), modules)
    rep.notes.extend(notes)
    cmd = f".venv/bin/python check.py {prop} --tier {tier}"
    return rep.finish(cmd, explanation=explanation)
