from props import plans


def run(tier, seed, only=None):
    return plans.run("C11", tier, seed, only=only)
