from props import plans


def run(tier, seed, only=None):
    return plans.run("C20", tier, seed, only=only)
