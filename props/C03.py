"""C03 — pretty-printed text says exactly what the dictionary says."""
from props import common

from props import plans
from props.plans import ALL_MODULES as MODULES


def pred(c):
    if c.target is None:
        return True
    return c.target.startswith("mappyfile.pprint.") or c.target.startswith("mappyfile.quoter.")


CANARIES = [
    dict(name="free-string-written-bare", file="mappyfile/pprint.py",
         old="                return value\n\n            return self.quoter.add_quotes(value)",
         new="                return value\n\n            return value",
         contract="mappyfile.pprint.PrettyPrinter.format_value", case="class.group:str:dq"),
    dict(name="empty-dict-not-refused", file="mappyfile/pprint.py",
         old="if isinstance(value, dict) and not value:", new="if isinstance(value, dict) and not value and False:",
         contract="mappyfile.pprint.PrettyPrinter.format_value", case="class.group:emptydict:dq"),
    dict(name="hidden-key-filter-weakened", file="mappyfile/pprint.py",
         old='if key.startswith("__") and key.endswith("__"):', new='if key.startswith("__") and key.endswith("___"):',
         contract="mappyfile.pprint.PrettyPrinter._PrettyPrinter__is_metadata", case="*"),
    dict(name="binding-quoted", file="mappyfile/pprint.py",
         old='elif attr != "text" and self.quoter.in_brackets(value):', new='elif attr == "text" and self.quoter.in_brackets(value):',
         contract="mappyfile.pprint.PrettyPrinter.format_value", case="label.color:str:dq"),
]


def run(tier, seed, only=None):
    return common.standard_run(
        "C03", tier, seed, "proof", MODULES, pred, canaries=CANARIES, only=only,
        b_checks=[plans.seam("b_reader"), plans.seam("b_numbers")],
        explanation=("format_value is verified per schema slot (quick: one slot per distinct schema shape; thorough: all "
                     "349 slots) x admitted value kind x output quote against spec.render (written from the statement and "
                     "the schemas): lexical class of every value, refusal of the empty dict; structure (every non-hidden "
                     "key once, in order, nested correctly) by the _format/pprint/block-writer contracts"),
        notes=["precondition from the quantifier: string values do not contain the output quote and have no leading/trailing blanks",
               "a string value is assumed to conform to one of the slot's string alternatives (a value outside every alternative has no prescribed class)"])
