"""Contracts for mappyfile/pprint.py."""
from __future__ import annotations
import os
import z3
from pyvc import sym as S
from pyvc.api import Contract, register, QUOTES
from pyvc.absx import AbsColl, Seg, LoopSpec, seq_eq
from spec import render as R
from spec import schemas as SC

TIER = os.environ.get("VERIF_TIER", "quick")


def mk_pp(E, qcase="dq", **fixed):
    """A PrettyPrinter whose option fields are symbolic (any indent >= 0, any spacer string, any newline
    string, any flags).  ``self.spacer`` is an arbitrary string: the __init__ contract says it is
    spacer*indent, the methods do not depend on that."""
    from mappyfile.pprint import PrettyPrinter
    from mappyfile.quoter import Quoter
    pp = PrettyPrinter.__new__(PrettyPrinter)
    pp.indent = fixed.get("indent", None)
    if pp.indent is None:
        pp.indent = E.int("indent")
        E.assume(pp.indent >= 0)
    pp.spacer = fixed["spacer"] if "spacer" in fixed else E.str("sp")
    pp.quoter = Quoter(QUOTES[qcase])
    pp.newlinechar = fixed["newlinechar"] if "newlinechar" in fixed else E.str("nl")
    pp.end_comment = fixed["end_comment"] if "end_comment" in fixed else E.bool("end_comment")
    pp.end = "END"
    pp.validator = SC.shared_validator()
    pp.align_values = fixed["align_values"] if "align_values" in fixed else E.bool("align")
    pp.separate_complex_types = fixed["separate"] if "separate" in fixed else E.bool("sep")
    return pp


def ws(pp, n):
    return S.rep(pp.spacer, n)


# ---------------------------------------------------------------------------------------------
# constructor and the line-level helpers (C16)
# ---------------------------------------------------------------------------------------------

@register
class Init(Contract):
    target = "mappyfile.pprint.PrettyPrinter.__init__"
    cases = ["dq", "sq", "bad"]
    props = ("C16", "C06", "C12")

    def build(self, E, case):
        from mappyfile.pprint import PrettyPrinter
        q = E.str("quote")
        if case == "bad":
            E.assume(S.and_(q != '"', q != "'"))
        else:
            E.assume(q == QUOTES[case])
        return (PrettyPrinter.__new__(PrettyPrinter), E.int("indent"), E.str("spacer"), q, E.str("nl"),
                E.bool("end_comment"), E.bool("align"), E.bool("sep")), {}

    def ensures(self, E, case, args, kwargs, out):
        pp, indent, spacer, q, nl, ec, al, sep = args
        if case == "bad":
            yield "raises-AssertionError", out.raised(AssertionError)
            return
        yield "returns", out.kind == "return"
        if out.kind == "return":
            yield "indent", S.eq(pp.indent, indent)
            yield "spacer==spacer*indent", S.eq(pp.spacer, S.rep(spacer, indent))
            yield "newlinechar", S.eq(pp.newlinechar, nl)
            yield "end_comment", S.eq(pp.end_comment, ec)
            yield "align_values", S.eq(pp.align_values, al)
            yield "separate_complex_types", S.eq(pp.separate_complex_types, sep)
            yield "end", pp.end == "END"
            yield "quoter.quote", pp.quoter.quote == QUOTES[case]


@register
class Whitespace(Contract):
    target = "mappyfile.pprint.PrettyPrinter.whitespace"
    props = ("C16",)
    modifies = ()

    def build(self, E, case):
        return (mk_pp(E), E.int("level"), E.int("ind")), {}

    def ensures(self, E, case, args, kwargs, out):
        pp, level, ind = args
        yield "result", out.kind == "return" and S.eq(out.value, ws(pp, level + ind))

    def at_call(self, E, pp, level, indent):
        return ws(pp, level + indent)


@register
class AddStartLine(Contract):
    target = "mappyfile.pprint.PrettyPrinter.add_start_line"
    props = ("C16",)
    modifies = ()

    def build(self, E, case):
        return (mk_pp(E), E.str("key"), E.int("level")), {}

    def ensures(self, E, case, args, kwargs, out):
        pp, key, level = args
        yield "result", out.kind == "return" and S.eq(out.value, S.concat(ws(pp, level + 1), S.upper(key)))

    def at_call(self, E, pp, key, level):
        return S.concat(ws(pp, level + 1), S.upper(key))


def end_line(pp, n, key):
    return S.concat(ws(pp, n), "END", S.ite(pp.end_comment, S.concat(" # ", S.upper(key)), ""))


@register
class AddEndLine(Contract):
    target = "mappyfile.pprint.PrettyPrinter.add_end_line"
    props = ("C16",)
    modifies = ()

    def build(self, E, case):
        return (mk_pp(E), E.int("level"), E.int("ind"), E.str("key")), {}

    def ensures(self, E, case, args, kwargs, out):
        pp, level, ind, key = args
        yield "result", out.kind == "return" and S.eq(out.value, end_line(pp, level + ind, key))

    def at_call(self, E, pp, level, indent, key):
        return end_line(pp, level + indent, key)


def format_line_spec(spacer, key, value_text, amax):
    """spacer ++ key ++ pad ++ value;  pad = ' ' * (column - len(key)), column = len(key)+1 unless aligned"""
    klen = S.length(key)
    if amax is None:
        col = klen + 1
    else:
        col = S.ite(S.eq(amax, 0), klen + 1, amax)
    return S.concat(spacer, key, S.rep(" ", col - klen), value_text)


@register
class FormatLine(Contract):
    target = "mappyfile.pprint.PrettyPrinter._PrettyPrinter__format_line"
    cases = ["str:none", "str:int", "int:int", "real:int", "str:default"]
    props = ("C16",)
    modifies = ()

    def build(self, E, case):
        vk, ak = case.split(":")
        v = {"str": E.str, "int": E.int, "real": E.real}[vk]("value")
        args = [mk_pp(E), E.str("spacer"), E.str("key"), v]
        if ak == "none":
            args.append(None)
        elif ak == "int":
            a = E.int("amax")
            args.append(a)
        return tuple(args), {}

    def ensures(self, E, case, args, kwargs, out):
        pp, spacer, key, v = args[:4]
        amax = args[4] if len(args) > 4 else 0
        yield "result", out.kind == "return" and S.eq(out.value, format_line_spec(spacer, key, S.to_str(v), amax))

    def at_call(self, E, pp, spacer, key, value, aligned_max_indent=0):
        from pyvc.models import py_str
        return format_line_spec(spacer, key, py_str(E.interp, value), aligned_max_indent)


@register
class LemmaSeparatorNonEmpty(Contract):
    """C16/C01: with the column the printer computes, at least one blank separates keyword and value:
    column > len(key) whenever column == len(key)+1 (not aligned) or column > len(longest key) >= len(key)."""
    target = None
    lemma = True
    props = ("C16",)
    cases = ["unaligned", "aligned"]

    def build(self, E, case):
        klen = E.int("klen")
        E.assume(klen >= 0)
        if case == "unaligned":
            col = klen + 1
        else:
            col = E.int("amax")
            mkl = E.int("mkl")
            E.assume(S.and_(mkl >= klen, col > mkl))
        return (klen, col), {}

    def ensures(self, E, case, args, kwargs, out):
        klen, col = args
        yield "pad>=1", (col - klen) >= 1


@register
class ComputeAlignedMaxIndent(Contract):
    """the first multiple of max(1, indent) past the longest keyword"""
    target = "mappyfile.pprint.PrettyPrinter.compute_aligned_max_indent"
    cases = ["indent=%d" % i for i in range(0, 9)] + ["indent>=1"]
    props = ("C16",)
    modifies = ()
    doc = "indent concrete 0..8 (the documented option range) and fully symbolic indent>=1; float division as real"

    def build(self, E, case):
        if case == "indent>=1":
            pp = mk_pp(E)
            E.assume(pp.indent >= 1)
        else:
            pp = mk_pp(E, indent=int(case.split("=")[1]))
        m = E.int("m")
        E.assume(m >= 0)
        return (pp, m), {}

    def ensures(self, E, case, args, kwargs, out):
        pp, m = args
        i = S.max2(1, pp.indent)
        ok = out.kind == "return"
        yield "returns", ok
        if ok:
            r = out.value
            yield "past-longest", r > m
            yield "first", (r - i) <= m
            if case != "indent>=1":
                yield "multiple", S.eq(S.mod(r, i), 0)
            else:
                k = E.int("k") if not E.symbolic else None
                # multiple-of is nonlinear for symbolic indent: state it as r == (m // i + 1) * i
                yield "multiple(as quotient form)", S.eq(r, (S.floordiv(m, i) + 1) * i)

    def at_call(self, E, pp, m):
        i = S.max2(1, pp.indent)
        r = E.fresh(S.INT, "amax")
        E.assume(S.and_(r > m, (r - i) <= m, r >= 1))
        return r


# ---------------------------------------------------------------------------------------------
# small predicates
# ---------------------------------------------------------------------------------------------

def is_hidden_key(k):
    return S.and_(S.startswith(k, "__"), S.endswith(k, "__"))


@register
class IsMetadata(Contract):
    target = "mappyfile.pprint.PrettyPrinter._PrettyPrinter__is_metadata"
    props = ("C03", "C13")
    modifies = ()

    def build(self, E, case):
        return (mk_pp(E), E.str("key")), {}

    def ensures(self, E, case, args, kwargs, out):
        yield "result", out.kind == "return" and S.eq(S.truthy(out.value), is_hidden_key(args[1]))

    def at_call(self, E, pp, key):
        return is_hidden_key(key)


@register
class IsExpression(Contract):
    target = "mappyfile.pprint.PrettyPrinter.is_expression"
    cases = ["expr", "other-desc", "none"]
    modifies = ()

    def build(self, E, case):
        opt = {"expr": {"description": "expression", "type": "string"}, "other-desc": {"description": "x"},
               "none": {"type": "string"}}[case]
        return (mk_pp(E), opt), {}

    def ensures(self, E, case, args, kwargs, out):
        yield "result", out.kind == "return" and bool(out.value) == (case == "expr")


# ---------------------------------------------------------------------------------------------
# format_value  (C03): per schema slot x value kind x output quote
# ---------------------------------------------------------------------------------------------

def _slot_cases():
    slots = SC.value_slots()
    if TIER != "thorough":
        slots = SC.one_per_shape(slots)
    out = []
    for (typ, attr) in slots:
        for kind in SC.value_kinds(typ, attr):
            for q in ("dq", "sq"):
                if q == "sq" and kind not in ("str", "liststr"):
                    continue
                out.append(f"{typ}.{attr}:{kind}:{q}")
    # unknown keyword (not in the schema: attr_props == {}): numbers and booleans are still written bare
    for kind in ("int", "bool"):
        out.append(f"map.zz_unknown:{kind}:dq")
    return out


def build_value(E, kind):
    if kind == "str":
        v = E.str("v")
        return v
    if kind == "int":
        return E.int("v")
    if kind == "real":
        return E.real("v")
    if kind == "bool":
        return E.bool("v")
    if kind == "listnum":
        return [E.int("v0"), E.real("v1")]
    if kind == "listnum3":
        return [E.int("v0"), E.int("v1"), E.int("v2")]
    if kind == "liststr":
        return [E.str("v0"), E.str("v1")]
    if kind == "listmixed":
        return [E.int("v0"), E.str("v1")]
    if kind == "emptydict":
        return E.odict(entries=())
    raise ValueError(kind)


def number_text(x):
    return S.to_str(x)


@register
class FormatValue(Contract):
    target = "mappyfile.pprint.PrettyPrinter.format_value"
    props = ("C03", "C01", "C04", "C06")
    modifies = ()
    doc = ("cases = every schema slot (quick: one slot per distinct schema shape) x every value kind the slot's "
           "schema admits (+ the empty auto-created dict) x output quote.  Preconditions (from the property's "
           "quantifier): a string value does not contain the output quote character and has no leading/trailing "
           "whitespace (the whitespace-padded case is the separate contract FormatValuePadded).")

    @property
    def cases(self):
        return _slot_cases()

    def build(self, E, case):
        slot, kind, qc = case.split(":")
        typ, attr = slot.split(".")
        props = SC.slot_schema(typ, attr)
        v = build_value(E, kind)
        q = QUOTES[qc]
        for s in (v if isinstance(v, list) else [v]):
            if S.sort_of(s) == S.STR:
                E.assume(S.not_(S.contains(s, q)))
                E.assume(S.eq(S.strip(s), s))
                if kind == "str":
                    E.assume(R.conforms(None, props, s))
        return (mk_pp(E, qc), attr, props, v), {}

    def ensures(self, E, case, args, kwargs, out):
        slot, kind, qc = case.split(":")
        pp, attr, props, v = args
        q = QUOTES[qc]
        facts = R.slot_facts(props)
        if kind == "emptydict":
            yield "refused", out.raised(ValueError)
            return
        yield "returns", out.kind == "return"
        if out.kind != "return":
            return
        res = out.value
        if kind == "bool":
            yield "bool-bare", S.eq(res, S.ite(v, "TRUE", "FALSE"))
        elif kind in ("int", "real"):
            yield "number-bare", S.eq(S.to_str(res), number_text(v))
        elif kind == "str":
            yield "string-class", S.sort_of(res) == S.STR and R.string_text_ok(facts, attr, v, q, res)
        else:
            # list: elements in order, separated by single blanks; numbers bare, strings by the string rule
            parts = []
            ok = S.sort_of(res) == S.STR
            yield "list-is-text", ok
            if ok:
                # there must exist per-element texts t_i with res == ' '.join(t_i) and each t_i acceptable;
                # for numbers t_i is fixed, for strings it is one of at most two candidates
                yield "list-elements", _list_ok(facts, attr, v, q, res)

    def at_call(self, E, pp, attr, attr_props, value):
        raise NotImplementedError


def _list_ok(facts, attr, vs, q, res):
    item_facts = dict(facts)
    item_facts["binding"] = facts.get("item_binding", False)
    item_facts["enums"] = []
    item_facts["expression"] = False
    item_facts["regex"] = False
    cands = [[]]
    for x in vs:
        if S.sort_of(x) == S.STR:
            opts = [("q", S.concat(q, x, q)), ("v", x)]
        else:
            opts = [("n", number_text(x))]
        cands = [c + [o] for c in cands for o in opts]
    alts = []
    for c in cands:
        text = S.join(" ", [t for _, t in c])
        conds = [S.eq(res, text)]
        for (tag, t), x in zip(c, vs):
            if tag != "n":
                conds.append(R.string_text_ok(item_facts, attr, x, q, t))
        alts.append(S.and_(*conds))
    return S.or_(*alts)
