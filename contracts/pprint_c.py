"""Contracts for mappyfile/pprint.py."""
from __future__ import annotations
import os
import z3
from pyvc import sym as S
from pyvc.api import Contract, register, QUOTES
from pyvc.absx import AbsColl, Seg, LoopSpec, seq_eq, add_fact
from spec import render as R
from spec import schemas as SC

TIER = os.environ.get("VERIF_TIER", "quick")


def mk_pp(E, qcase="dq", **fixed):
    """A PrettyPrinter whose option fields are symbolic (any indent >= 0, any spacer string, any newline
    string, any flags).  ``self.spacer`` is an arbitrary string: the __init__ contract says it is
    spacer*indent, the methods do not depend on that."""
    from mappyfile.pprint import PrettyPrinter
    from mappyfile.quoter import Quoter
    pp = PrettyPrinter.__new__(PrettyPrinter)
    pp.indent = fixed.get("indent", None)
    if pp.indent is None:
        pp.indent = E.int("indent")
        E.assume(pp.indent >= 0)
    pp.spacer = fixed["spacer"] if "spacer" in fixed else E.str("sp")
    pp.quoter = Quoter(QUOTES[qcase])
    pp.newlinechar = fixed["newlinechar"] if "newlinechar" in fixed else E.str("nl")
    pp.end_comment = fixed["end_comment"] if "end_comment" in fixed else E.bool("end_comment")
    pp.end = "END"
    pp.validator = SC.shared_validator()
    pp.align_values = fixed["align_values"] if "align_values" in fixed else E.bool("align")
    pp.separate_complex_types = fixed["separate"] if "separate" in fixed else E.bool("sep")
    return pp


def ws(pp, n):
    return S.rep(pp.spacer, n)


# ---------------------------------------------------------------------------------------------
# constructor and the line-level helpers (C16)
# ---------------------------------------------------------------------------------------------

@register
class Init(Contract):
    target = "mappyfile.pprint.PrettyPrinter.__init__"
    cases = ["dq", "sq", "bad"]
    props = ("C16", "C06", "C12")

    def build(self, E, case):
        from mappyfile.pprint import PrettyPrinter
        q = E.str("quote")
        if case == "bad":
            E.assume(S.and_(q != '"', q != "'"))
        else:
            E.assume(q == QUOTES[case])
        return (PrettyPrinter.__new__(PrettyPrinter), E.int("indent"), E.str("spacer"), q, E.str("nl"),
                E.bool("end_comment"), E.bool("align"), E.bool("sep")), {}

    def ensures(self, E, case, args, kwargs, out):
        pp, indent, spacer, q, nl, ec, al, sep = args
        if case == "bad":
            yield "raises-AssertionError", out.raised(AssertionError)
            return
        yield "returns", out.kind == "return"
        if out.kind == "return":
            yield "indent", S.eq(pp.indent, indent)
            yield "spacer==spacer*indent", S.eq(pp.spacer, S.rep(spacer, indent))
            yield "newlinechar", S.eq(pp.newlinechar, nl)
            yield "end_comment", S.eq(pp.end_comment, ec)
            yield "align_values", S.eq(pp.align_values, al)
            yield "separate_complex_types", S.eq(pp.separate_complex_types, sep)
            yield "end", pp.end == "END"
            yield "quoter.quote", pp.quoter.quote == QUOTES[case]
            from mappyfile.validator import Validator
            from mappyfile.quoter import Quoter
            yield "own-quoter-and-validator", type(getattr(pp, "quoter", None)) is Quoter and type(getattr(pp, "validator", None)) is Validator


@register
class Whitespace(Contract):
    target = "mappyfile.pprint.PrettyPrinter.whitespace"
    props = ("C16",)
    modifies = ()

    def build(self, E, case):
        return (mk_pp(E), E.int("level"), E.int("ind")), {}

    def ensures(self, E, case, args, kwargs, out):
        pp, level, ind = args
        yield "result", out.kind == "return" and S.eq(out.value, ws(pp, level + ind))

    def at_call(self, E, pp, level, indent):
        return ws(pp, level + indent)


@register
class AddStartLine(Contract):
    target = "mappyfile.pprint.PrettyPrinter.add_start_line"
    props = ("C16",)
    modifies = ()

    def build(self, E, case):
        return (mk_pp(E), E.str("key"), E.int("level")), {}

    def ensures(self, E, case, args, kwargs, out):
        pp, key, level = args
        yield "result", out.kind == "return" and S.eq(out.value, S.concat(ws(pp, level + 1), S.upper(key)))

    def at_call(self, E, pp, key, level):
        return S.concat(ws(pp, level + 1), S.upper(key))


def end_line(pp, n, key):
    return S.concat(ws(pp, n), "END", S.ite(pp.end_comment, S.concat(" # ", S.upper(key)), ""))


@register
class AddEndLine(Contract):
    target = "mappyfile.pprint.PrettyPrinter.add_end_line"
    props = ("C16",)
    modifies = ()

    def build(self, E, case):
        return (mk_pp(E), E.int("level"), E.int("ind"), E.str("key")), {}

    def ensures(self, E, case, args, kwargs, out):
        pp, level, ind, key = args
        yield "result", out.kind == "return" and S.eq(out.value, end_line(pp, level + ind, key))

    def at_call(self, E, pp, level, indent, key):
        return end_line(pp, level + indent, key)


def format_line_spec(spacer, key, value_text, amax):
    """spacer ++ key ++ pad ++ value;  pad = ' ' * (column - len(key)), column = len(key)+1 unless aligned"""
    klen = S.length(key)
    if amax is None:
        col = klen + 1
    else:
        col = S.ite(S.eq(amax, 0), klen + 1, amax)
    return S.concat(spacer, key, S.rep(" ", col - klen), value_text)


@register
class FormatLine(Contract):
    target = "mappyfile.pprint.PrettyPrinter._PrettyPrinter__format_line"
    cases = ["str:none", "str:int", "int:int", "real:int", "str:default"]
    props = ("C16",)
    modifies = ()

    def build(self, E, case):
        vk, ak = case.split(":")
        v = {"str": E.str, "int": E.int, "real": E.real}[vk]("value")
        args = [mk_pp(E), E.str("spacer"), E.str("key"), v]
        if ak == "none":
            args.append(None)
        elif ak == "int":
            a = E.int("amax")
            args.append(a)
        return tuple(args), {}

    def ensures(self, E, case, args, kwargs, out):
        pp, spacer, key, v = args[:4]
        amax = args[4] if len(args) > 4 else 0
        yield "result", out.kind == "return" and S.eq(out.value, format_line_spec(spacer, key, S.to_str(v), amax))

    def at_call(self, E, pp, spacer, key, value, aligned_max_indent=0):
        from pyvc.models import py_str
        return format_line_spec(spacer, key, py_str(E.interp, value), aligned_max_indent)


@register
class LemmaSeparatorNonEmpty(Contract):
    """C16/C01: with the column the printer computes, at least one blank separates keyword and value:
    column > len(key) whenever column == len(key)+1 (not aligned) or column > len(longest key) >= len(key)."""
    target = None
    lemma = True
    props = ("C16",)
    cases = ["unaligned", "aligned"]

    def build(self, E, case):
        klen = E.int("klen")
        E.assume(klen >= 0)
        if case == "unaligned":
            col = klen + 1
        else:
            col = E.int("amax")
            mkl = E.int("mkl")
            E.assume(S.and_(mkl >= klen, col > mkl))
        return (klen, col), {}

    def ensures(self, E, case, args, kwargs, out):
        klen, col = args
        yield "pad>=1", (col - klen) >= 1


@register
class ComputeAlignedMaxIndent(Contract):
    """the first multiple of max(1, indent) past the longest keyword"""
    target = "mappyfile.pprint.PrettyPrinter.compute_aligned_max_indent"
    cases = ["indent=%d" % i for i in range(0, 9)] + ["indent>=1"]
    props = ("C16",)
    modifies = ()
    doc = "indent concrete 0..8 (the documented option range) and fully symbolic indent>=1; float division as real"

    def build(self, E, case):
        if case == "indent>=1":
            pp = mk_pp(E)
            E.assume(pp.indent >= 1)
        else:
            pp = mk_pp(E, indent=int(case.split("=")[1]))
        m = E.int("m")
        E.assume(m >= 0)
        return (pp, m), {}

    def ensures(self, E, case, args, kwargs, out):
        pp, m = args
        i = S.max2(1, pp.indent)
        ok = out.kind == "return"
        yield "returns", ok
        if ok:
            r = out.value
            yield "past-longest", r > m
            yield "first", (r - i) <= m
            if case != "indent>=1":
                yield "multiple", S.eq(S.mod(r, i), 0)
            else:
                k = E.int("k") if not E.symbolic else None
                # multiple-of is nonlinear for symbolic indent: state it as r == (m // i + 1) * i
                yield "multiple(as quotient form)", S.eq(r, (S.floordiv(m, i) + 1) * i)

    def at_call(self, E, pp, m):
        i = S.max2(1, pp.indent)
        r = E.fresh(S.INT, "amax")
        E.assume(S.and_(r > m, (r - i) <= m, r >= 1))
        E.ctx.notes.append(("amax-call", r, m))
        return r


# ---------------------------------------------------------------------------------------------
# small predicates
# ---------------------------------------------------------------------------------------------

def is_hidden_key(k):
    return S.and_(S.startswith(k, "__"), S.endswith(k, "__"))


@register
class IsMetadata(Contract):
    target = "mappyfile.pprint.PrettyPrinter._PrettyPrinter__is_metadata"
    props = ("C03", "C13")
    modifies = ()

    def build(self, E, case):
        return (mk_pp(E), E.str("key")), {}

    def ensures(self, E, case, args, kwargs, out):
        yield "result", out.kind == "return" and S.eq(S.truthy(out.value), is_hidden_key(args[1]))

    def at_call(self, E, pp, key):
        return is_hidden_key(key)


@register
class IsExpression(Contract):
    target = "mappyfile.pprint.PrettyPrinter.is_expression"
    cases = ["expr", "other-desc", "none"]
    modifies = ()

    def build(self, E, case):
        opt = {"expr": {"description": "expression", "type": "string"}, "other-desc": {"description": "x"},
               "none": {"type": "string"}}[case]
        return (mk_pp(E), opt), {}

    def ensures(self, E, case, args, kwargs, out):
        yield "result", out.kind == "return" and bool(out.value) == (case == "expr")


# ---------------------------------------------------------------------------------------------
# format_value  (C03): per schema slot x value kind x output quote
# ---------------------------------------------------------------------------------------------

def _slot_cases():
    slots = SC.value_slots()
    if TIER != "thorough":
        slots = SC.one_per_shape(slots)
    out = []
    for (typ, attr) in slots:
        for kind in SC.value_kinds(typ, attr):
            for q in ("dq", "sq"):
                if q == "sq" and kind not in ("str", "liststr"):
                    continue
                out.append(f"{typ}.{attr}:{kind}:{q}")
    # unknown keyword (not in the schema: attr_props == {}): numbers and booleans are still written bare
    for kind in ("int", "bool"):
        out.append(f"map.zz_unknown:{kind}:dq")
    return out


def build_value(E, kind):
    if kind == "str":
        v = E.str("v")
        return v
    if kind == "int":
        return E.int("v")
    if kind == "real":
        return E.real("v")
    if kind == "bool":
        return E.bool("v")
    if kind == "listnum":
        return [E.int("v0"), E.real("v1")]
    if kind == "listnum3":
        return [E.int("v0"), E.int("v1"), E.int("v2")]
    if kind == "liststr":
        return [E.str("v0"), E.str("v1")]
    if kind == "listmixed":
        return [E.int("v0"), E.str("v1")]
    if kind == "emptydict":
        return E.odict(entries=())
    raise ValueError(kind)


def number_text(x):
    return S.to_str(x)


@register
class FormatValue(Contract):
    target = "mappyfile.pprint.PrettyPrinter.format_value"
    props = ("C03", "C01", "C04", "C06")
    modifies = ()
    reads = {0: {"quoter"}}     # C06: the value text depends on no formatting option other than the quote
    doc = ("cases = every schema slot (quick: one slot per distinct schema shape) x every value kind the slot's "
           "schema admits (+ the empty auto-created dict) x output quote.  Preconditions (from the property's "
           "quantifier): a string value does not contain the output quote character and has no leading/trailing "
           "whitespace (the whitespace-padded case is the separate contract FormatValuePadded).")

    @property
    def cases(self):
        return _slot_cases()

    def build(self, E, case):
        slot, kind, qc = case.split(":")
        typ, attr = slot.split(".")
        props = SC.slot_schema(typ, attr)
        v = build_value(E, kind)
        q = QUOTES[qc]
        for s in (v if isinstance(v, list) else [v]):
            if S.sort_of(s) == S.STR:
                E.assume(S.not_(S.contains(s, q)))
                E.assume(S.eq(S.strip(s), s))
                if kind == "str":
                    E.assume(R.conforms(None, props, s))
                else:
                    E.assume(R.item_conforms(props, s))
        return (mk_pp(E, qc), attr, props, v), {}

    def ensures(self, E, case, args, kwargs, out):
        slot, kind, qc = case.split(":")
        pp, attr, props, v = args
        q = QUOTES[qc]
        facts = R.slot_facts(props)
        if kind == "emptydict":
            yield "refused", out.raised(ValueError)
            return
        yield "returns", out.kind == "return"
        if out.kind != "return":
            return
        res = out.value
        if kind == "bool":
            yield "bool-bare", S.eq(res, S.ite(v, "TRUE", "FALSE"))
        elif kind in ("int", "real"):
            yield "number-bare", S.eq(S.to_str(res), number_text(v))
        elif kind == "str":
            yield "string-class", S.sort_of(res) == S.STR and R.string_text_ok(facts, attr, v, q, res)
        else:
            # list: elements in order, separated by single blanks; numbers bare, strings by the string rule
            parts = []
            ok = S.sort_of(res) == S.STR
            yield "list-is-text", ok
            if ok:
                # there must exist per-element texts t_i with res == ' '.join(t_i) and each t_i acceptable;
                # for numbers t_i is fixed, for strings it is one of at most two candidates
                yield "list-elements", _list_ok(facts, attr, v, q, res)

    def at_call(self, E, pp, attr, attr_props, value):
        raise NotImplementedError


def _list_ok(facts, attr, vs, q, res):
    item_facts = dict(facts)
    item_facts["binding"] = facts.get("item_binding", False)
    item_facts["enums"] = []
    item_facts["expression"] = False
    item_facts["regex"] = False
    cands = [[]]
    for x in vs:
        if S.sort_of(x) == S.STR:
            opts = [("q", S.concat(q, x, q)), ("v", x)]
        else:
            opts = [("n", number_text(x))]
        cands = [c + [o] for c in cands for o in opts]
    alts = []
    for c in cands:
        text = S.join(" ", [t for _, t in c])
        conds = [S.eq(res, text)]
        for (tag, t), x in zip(c, vs):
            if tag != "n":
                conds.append(R.string_text_ok(item_facts, attr, x, q, t))
        alts.append(S.and_(*conds))
    return S.or_(*alts)


# ---------------------------------------------------------------------------------------------
# modular view of format_value / get_attribute_properties for the line writers
# ---------------------------------------------------------------------------------------------

_FVT = {
    S.STR: z3.Function("fv_text_s", z3.StringSort(), z3.StringSort(), z3.StringSort(), z3.StringSort()),
    S.INT: z3.Function("fv_text_i", z3.StringSort(), z3.StringSort(), z3.IntSort(), z3.StringSort()),
    S.REAL: z3.Function("fv_text_r", z3.StringSort(), z3.StringSort(), z3.RealSort(), z3.StringSort()),
    S.BOOL: z3.Function("fv_text_b", z3.StringSort(), z3.StringSort(), z3.BoolSort(), z3.StringSort()),
}


class AbsProps:
    """the schema node of (type_, attr) for symbolic type_/attr: only passed on to format_value"""
    def __init__(self, type_, attr):
        self.type_ = type_
        self.attr = attr


def fv_text(E, type_, attr, value):
    """text of format_value(attr, props(type_, attr), value) as an uninterpreted function of its inputs
    (what it is exactly is the business of the FormatValue contract)"""
    so = S.sort_of(value)
    if so is None:
        r = E.fresh(S.STR, "fvtext")
        return r
    if not E.symbolic:
        raise RuntimeError("fv_text is proof-only")
    return S.Sym(S.STR, _FVT[so](S.term(type_), S.term(attr), S.term(value)))


FormatValue.at_call = lambda self, E, pp, attr, attr_props, value: (
    fv_text(E, attr_props.type_, attr, value) if isinstance(attr_props, AbsProps)
    else (_ for _ in ()).throw(NotImplementedError("format_value is inlined for concrete schema nodes")))


@register
class GetAttributeProperties(Contract):
    """returns the schema node of the keyword as expanded by the validator ({} for an unknown keyword)"""
    target = "mappyfile.pprint.PrettyPrinter.get_attribute_properties"
    props = ("C03", "C19", "C06")
    modifies = ()
    reads = {0: {"validator"}}

    @property
    def cases(self):
        slots = SC.value_slots()
        if TIER != "thorough":
            slots = SC.one_per_shape(slots)
        return [f"{t}.{a}" for (t, a) in slots] + ["map.zz_unknown"]

    def build(self, E, case):
        t, a = case.split(".")
        return (mk_pp(E), t, a), {}

    def ensures(self, E, case, args, kwargs, out):
        t, a = case.split(".")
        ok = out.kind == "return"
        yield "returns", ok
        if ok:
            want = SC.expanded(t)["properties"].get(a, {})
            yield "is-schema-node", SC.plain(out.value) == want

    def at_call(self, E, pp, type_, attr):
        if S.is_sym(type_) or S.is_sym(attr):
            return AbsProps(type_, attr)
        return pp.validator.get_expanded_schema(type_)["properties"].get(attr, {})


# FormatValue must accept jsonref-expanded nodes; when attr_props is concrete the body is inlined
_fv_orig_at_call = FormatValue.at_call


@register
class ProcessAttribute(Contract):
    target = "mappyfile.pprint.PrettyPrinter.process_attribute"
    cases = ["str", "int", "real", "bool", "default-amax"]
    props = ("C16", "C03")
    modifies = ()
    doc = "ws(level+1) ++ KEY ++ pad ++ format_value(...); symbolic type_, attr, level, column"

    def build(self, E, case):
        kind = "str" if case == "default-amax" else case
        v = build_value(E, kind)
        args = [mk_pp(E), E.str("type_"), E.str("attr"), v, E.int("level")]
        if case != "default-amax":
            args.append(E.int("amax"))
        return tuple(args), {}

    def ensures(self, E, case, args, kwargs, out):
        pp, type_, attr, v, level = args[:5]
        amax = args[5] if len(args) > 5 else 1
        ok = out.kind == "return"
        yield "returns", ok
        if ok:
            yield "line", S.eq(out.value, process_attribute_spec(E, pp, type_, attr, v, level, amax))

    def at_call(self, E, pp, type_, attr, value, level, aligned_max_indent=1):
        return process_attribute_spec(E, pp, type_, attr, value, level, aligned_max_indent)


def process_attribute_spec(E, pp, type_, attr, v, level, amax):
    return format_line_spec(ws(pp, level + 1), S.upper(attr), fv_text(E, type_, attr, v), amax)


# ---------------------------------------------------------------------------------------------
# comments (C14 printing side)
# ---------------------------------------------------------------------------------------------

def _comments_dict(E, case, key):
    """comments dict for the cases: none / str / list1 / list2"""
    if case == "none":
        return E.odict(entries=[("zz_other", E.str("c_other"))]), None
    if case == "str":
        c = E.str("c0")
        return E.odict(entries=[(key, c)]), c
    n = int(case[4:])
    cs = [E.str(f"c{i}") for i in range(n)]
    return E.odict(entries=[(key, cs)]), cs


def attribute_comment_spec(comments_value):
    if comments_value is None:
        return ""
    if isinstance(comments_value, list):
        return S.concat(" ", S.join(" ", comments_value))
    return S.concat(" ", comments_value)


def composite_comment_spec(pp, level, comments_value):
    if comments_value is None:
        return ""
    sp = ws(pp, level)
    if isinstance(comments_value, list):
        return S.join(pp.newlinechar, [S.concat(sp, c) for c in comments_value])
    return S.concat(sp, comments_value)


@register
class ProcessAttributeComment(Contract):
    target = "mappyfile.pprint.PrettyPrinter.process_attribute_comment"
    cases = ["none", "str", "list1", "list2", "list3"]
    props = ("C14",)
    modifies = ()
    doc = "list lengths 1..3 are shape-bounded cases (the join is over a Python list of that length)"

    def build(self, E, case):
        key = "akey"
        d, self_v = _comments_dict(E, case, key)
        return (mk_pp(E), d, key), {}

    def ensures(self, E, case, args, kwargs, out):
        pp, d, key = args
        cv = d[key] if case != "none" else None
        yield "suffix", out.kind == "return" and S.eq(out.value, attribute_comment_spec(cv))

    def at_call(self, E, pp, comments, key):
        from pyvc.engine import MDict
        from pyvc import models
        if isinstance(comments, MDict) and comments.tail is None:
            if not E.interp.ctx.branch(models.mdict_contains(E.interp, comments, key)):
                return ""
            return attribute_comment_spec(models.mdict_getitem(E.interp, comments, key))
        if isinstance(comments, AbsComments):
            return comments.suffix(E, key)
        raise NotImplementedError


class AbsComments:
    """an arbitrary __comments__ dict: the suffix for a key is an uninterpreted function of the key"""
    F = z3.Function("comment_suffix", z3.StringSort(), z3.StringSort())
    T = z3.Function("type_comment_lines", z3.IntSort(), z3.StringSort())

    def __init__(self, ident=0):
        self.ident = ident

    def suffix(self, E, key):
        return S.Sym(S.STR, AbsComments.F(S.term(key)))


@register
class ProcessCompositeComment(Contract):
    target = "mappyfile.pprint.PrettyPrinter.process_composite_comment"
    cases = ["none", "str", "list1", "list2", "list3"]
    props = ("C14",)
    modifies = ()

    def build(self, E, case):
        d, _ = _comments_dict(E, case, "__type__")
        return (mk_pp(E), E.int("level"), d, "__type__"), {}

    def ensures(self, E, case, args, kwargs, out):
        pp, level, d, key = args
        cv = d[key] if case != "none" else None
        yield "lines", out.kind == "return" and S.eq(out.value, composite_comment_spec(pp, level, cv))


@register
class AddTypeComment(Contract):
    target = "mappyfile.pprint.PrettyPrinter._add_type_comment"
    cases = ["none", "str", "list2"]
    props = ("C14", "C16")
    modifies = (3,)

    def build(self, E, case):
        d, _ = _comments_dict(E, case, "__type__")
        if case == "str":
            E.assume(d["__type__"] != "")
        return (mk_pp(E), E.int("level"), d, [Seg("lines@pre")]), {}

    def ensures(self, E, case, args, kwargs, out):
        pp, level, d, lines = args
        ok = out.kind == "return"
        yield "returns", ok
        if not ok:
            return
        if case == "none":
            yield "nothing-added", len(lines) == 1
        else:
            want = composite_comment_spec(pp, level, d["__type__"])
            if case == "str":
                yield "one-entry", len(lines) == 2 and S.eq(lines[1], want)
            else:
                # a list of comments is joined with newlinechar into one entry, unless all are empty
                yield "one-entry-or-empty", S.ite(S.eq(want, ""), len(lines) == 1, len(lines) == 2 and S.eq(lines[-1], want))


# ---------------------------------------------------------------------------------------------
# predicates on (key, value) and the key-length scan
# ---------------------------------------------------------------------------------------------

IGNORE_KEYS = ("metadata", "validation", "values", "connectionoptions", "pattern", "projection", "points", "config")
KEYVALUE_BLOCKS = ("metadata", "validation", "values", "connectionoptions")


def _tables():
    from mappyfile.tokens import OBJECT_LIST_KEYS, REPEATED_KEYS, COMPLEX_TYPES, COMPOSITE_NAMES, SINGLETON_COMPOSITE_NAMES
    return dict(olk=sorted(OBJECT_LIST_KEYS), rep=tuple(REPEATED_KEYS), cx=sorted(COMPLEX_TYPES),
                names=sorted(COMPOSITE_NAMES | SINGLETON_COMPOSITE_NAMES))


def is_composite_val(v):
    from pyvc.engine import MDict
    if isinstance(v, MDict):
        return "__type__" in v
    return isinstance(v, dict) and "__type__" in v


def hidden_container(attr, v):
    return S.and_(isinstance(v, list) or isinstance(v, AbsColl), S.in_const_set(attr, _tables()["olk"]))


def simple_key(attr, v):
    return S.and_(S.not_(is_hidden_key(attr)), S.not_(S.in_const_set(attr, IGNORE_KEYS)),
                  S.not_(hidden_container(attr, v)), not is_composite_val(v))


VALUE_KINDS = ["str", "int", "list", "composite", "plaindict"]


def mk_value(E, kind, name="val"):
    if kind == "str":
        return E.str(name)
    if kind == "int":
        return E.int(name)
    if kind == "list":
        return E.abslist(name)
    if kind == "composite":
        return E.absdict(name, entries=[("__type__", E.str(name + ".type"))], absent=("__comments__",))
    if kind == "plaindict":
        return E.absdict(name, entries=[], absent=("__type__", "__comments__"))
    raise ValueError(kind)


@register
class IsComposite(Contract):
    target = "mappyfile.pprint.PrettyPrinter.is_composite"
    cases = VALUE_KINDS
    modifies = ()

    def build(self, E, case):
        return (mk_pp(E), mk_value(E, case)), {}

    def ensures(self, E, case, args, kwargs, out):
        yield "result", out.kind == "return" and bool(out.value) == (case == "composite")

    def at_call(self, E, pp, v):
        return is_composite_val(v)


@register
class IsHiddenContainer(Contract):
    target = "mappyfile.pprint.PrettyPrinter.is_hidden_container"
    cases = VALUE_KINDS
    modifies = ()

    def build(self, E, case):
        return (mk_pp(E), E.str("key"), mk_value(E, case)), {}

    def ensures(self, E, case, args, kwargs, out):
        pp, key, v = args
        yield "result", out.kind == "return" and S.eq(S.truthy(out.value), hidden_container(key, v) if case == "list" else False)


class _AbsList(AbsColl):
    pass


# an abstract list must look like a list to isinstance
def _install_abs_isinstance():
    from pyvc import models
    orig = models.pytype_of

    def pytype_of(v):
        if isinstance(v, AbsColl) and v.info.get("pytype"):
            return v.info["pytype"]
        if isinstance(v, AbsColl):
            return list
        return orig(v)
    models.pytype_of = pytype_of


_install_abs_isinstance()


class KeyLenLoop(LoopSpec):
    elem_cases = VALUE_KINDS

    def carried(self, E, L, coll):
        return {"length": E.fresh(S.INT, "length")}

    def inv(self, E, L):
        yield "length>=0", L["length"] >= 0

    def element(self, E, case, coll):
        return (E.str("attr"), mk_value(E, case))

    def step(self, E, pre, post, elem, case):
        attr, v = elem
        yield "monotone", post["length"] >= pre["length"]
        yield "covers-simple-key", S.implies(simple_key(attr, v), post["length"] >= S.length(attr))
        yield "is-some-key-length", S.or_(S.eq(post["length"], pre["length"]),
                                          S.and_(simple_key(attr, v), S.eq(post["length"], S.length(attr))))

    def after(self, E, L, coll):
        length = L["length"]
        # rule R-forall: every iteration establishes Q(x) := simple(x) => len(x.key) <= length and no
        # iteration breaks it for another element (length is monotone) => Q holds for every element
        add_fact(coll, lambda elem, length=length: S.implies(simple_key(elem[0], elem[1]), length >= S.length(elem[0])))


@register
class ComputeMaxKeyLength(Contract):
    target = "mappyfile.pprint.PrettyPrinter.compute_max_key_length"
    props = ("C16",)
    modifies = ()
    loops = {1: KeyLenLoop()}
    doc = "result >= len(key) for every simple key of the object (loop rule R-forall), result >= 0"

    def build(self, E, case):
        return (mk_pp(E), E.absdict("composite", entries=[("__type__", E.str("type"))])), {}

    def ensures(self, E, case, args, kwargs, out):
        yield "returns-nonneg", out.kind == "return" and out.value >= 0

    def at_call(self, E, pp, composite):
        from pyvc.engine import MDict
        mkl = E.fresh(S.INT, "mkl")
        E.assume(mkl >= 0)
        E.ctx.notes.append(("mkl-call", mkl, composite))
        if isinstance(composite, MDict) and composite.tail is not None:
            add_fact(composite.tail["items"],
                     lambda elem, mkl=mkl: S.implies(simple_key(elem[0], elem[1]), mkl >= S.length(elem[0])))
        elif isinstance(composite, MDict):
            for k, v in composite.entries:
                E.assume(S.implies(simple_key(k, v), mkl >= S.length(k)))
        return mkl


# ---------------------------------------------------------------------------------------------
# block writers
# ---------------------------------------------------------------------------------------------

def quoted(pp, x):
    q = pp.quoter.quote
    return S.concat(q, S.to_str(x) if S.sort_of(x) is not None else x, q)


class ProcessDictLoop(LoopSpec):
    elem_cases = ["hidden", "pair"]

    def carried(self, E, L, coll):
        return {"lines": [Seg("process_dict.lines@pre")]}

    def exit_state(self, E, L, coll):
        d = coll.info["owner"]
        return {"lines": list(L["lines"]) + [Seg("process_dict.body", d, L["level"], L["comments"], L["aligned_max_indent"])]}

    def element(self, E, case, coll):
        k = E.str("k")
        v = E.str("v")
        if case == "hidden":
            E.assume(is_hidden_key(k))
        else:
            E.assume(S.not_(is_hidden_key(k)))
        return (k, v)

    def step(self, E, pre, post, elem, case):
        k, v = elem
        pp = post["self"]
        if case == "hidden":
            yield "hidden-key-skipped", seq_eq(post["lines"], pre["lines"])
            return
        amax = post["aligned_max_indent"]
        qk, qv = quoted(pp, k), quoted(pp, v)
        want = S.concat(format_line_spec(ws(pp, post["level"] + 2), qk, qv, amax), comment_suffix(E, post["comments"], k))
        yield "one-line-per-pair", len(post["lines"]) == len(pre["lines"]) + 1 and seq_eq(post["lines"][:-1], pre["lines"])
        if len(post["lines"]) == len(pre["lines"]) + 1:
            yield "pair-line", S.eq(post["lines"][-1], want)
        # C16: key and value are separated by at least one blank (the column lies past the quoted key)
        col = S.ite(S.eq(amax, 0), S.length(qk) + 1, amax)
        yield "separator-nonempty", col > S.length(qk)


def comment_suffix(E, comments, key):
    from pyvc.engine import MDict
    if isinstance(comments, AbsComments):
        return comments.suffix(E, key)
    if isinstance(comments, MDict) and not comments.entries and comments.tail is None:
        return ""
    raise NotImplementedError("comment_suffix for " + repr(comments))


@register
class ProcessDict(Contract):
    target = "mappyfile.pprint.PrettyPrinter.process_dict"
    cases = ["abs-comments", "no-comments"]
    props = ("C16", "C03", "C14")
    modifies = ()
    loops = {1: ProcessDictLoop()}

    def build(self, E, case):
        d = E.absdict("d", entries=[], ci=True)
        comments = AbsComments() if case == "abs-comments" else E.odict(entries=())
        return (mk_pp(E), d, E.int("level"), comments), {}

    def ensures(self, E, case, args, kwargs, out):
        ok = out.kind == "return" and isinstance(out.value, list)
        yield "returns-list", ok
        if ok:
            yield "only-the-pairs", len(out.value) == 1 and isinstance(out.value[0], Seg) and out.value[0].key[0] == "process_dict.body"

    def at_call(self, E, pp, d, level, comments):
        return [Seg("process_dict", d, level, comments)]


def type_comment_lines(E, pp, level, comments):
    """[] or [one entry holding the __type__ comment line(s)]"""
    from pyvc.engine import MDict
    if isinstance(comments, MDict) and comments.tail is None:
        if "__type__" not in comments:
            return []
        return [composite_comment_spec(pp, level, comments["__type__"])]
    raise NotImplementedError


def _mk_comments(E, case):
    if case == "nocomments":
        return None
    c = E.str("tc")
    E.assume(c != "")
    return E.odict(entries=[("__type__", c)])


@register
class ProcessKeyDict(Contract):
    target = "mappyfile.pprint.PrettyPrinter.process_key_dict"
    cases = ["nocomments", "typecomment"]
    props = ("C16", "C03", "C14")
    modifies = ()

    def build(self, E, case):
        entries = []
        cm = _mk_comments(E, case)
        if cm is not None:
            entries.append(("__comments__", cm))
        d = E.absdict("d", entries=entries, ci=True, absent=() if cm is not None else ("__comments__",))
        return (mk_pp(E), E.str("key"), d, E.int("level")), {}

    def ensures(self, E, case, args, kwargs, out):
        pp, key, d, level = args
        ok = out.kind == "return" and isinstance(out.value, list)
        yield "returns-list", ok
        if not ok:
            return
        lines = out.value
        n = 3 if case == "nocomments" else 4
        yield "shape", len(lines) == n
        if len(lines) != n:
            return
        if case == "typecomment":
            yield "type-comment-first", S.eq(lines[0], S.concat(ws(pp, level), d["__comments__"]["__type__"]))
        yield "opener", S.eq(lines[-3], S.concat(ws(pp, level + 1), S.upper(key)))
        yield "body-is-process_dict", isinstance(lines[-2], Seg) and lines[-2].key[0] == "process_dict" and lines[-2].key[1] is d \
            and S.truthy(S.eq(lines[-2].key[2], level)) is True
        yield "end", S.eq(lines[-1], end_line(pp, level + 1, key))

    def at_call(self, E, pp, key, d, level):
        return [Seg("process_key_dict", key, d, level)]


class ConfigLoop(LoopSpec):
    def carried(self, E, L, coll):
        return {"lines": [Seg("config.lines@pre")]}

    def exit_state(self, E, L, coll):
        return {"lines": list(L["lines"]) + [Seg("process_config_dict.body", coll.info["owner"], L["level"])]}

    def element(self, E, case, coll):
        return (E.str("k"), E.str("v"))

    def step(self, E, pre, post, elem, case):
        k, v = elem
        pp = post["self"]
        want = S.concat(ws(pp, post["level"] + 1), "CONFIG ", quoted(pp, S.upper(k)), " ", quoted(pp, v))
        ok = len(post["lines"]) == len(pre["lines"]) + 1 and seq_eq(post["lines"][:-1], pre["lines"])
        yield "one-line-per-item", ok
        if ok:
            yield "config-line", S.eq(post["lines"][-1], want)


@register
class ProcessConfigDict(Contract):
    target = "mappyfile.pprint.PrettyPrinter.process_config_dict"
    props = ("C16", "C03")
    modifies = ()
    loops = {1: ConfigLoop()}

    def build(self, E, case):
        return (mk_pp(E), E.absdict("d", entries=[], ci=True), E.int("level")), {}

    def ensures(self, E, case, args, kwargs, out):
        ok = out.kind == "return" and isinstance(out.value, list)
        yield "returns-list", ok
        if ok:
            yield "only-config-lines", len(out.value) == 1 and isinstance(out.value[0], Seg)

    def at_call(self, E, pp, d, level):
        return [Seg("process_config_dict", d, level)]


class RepeatedLoop(LoopSpec):
    def carried(self, E, L, coll):
        return {"lines": [Seg("repeated.lines@pre")]}

    def exit_state(self, E, L, coll):
        return {"lines": list(L["lines"]) + [Seg("process_repeated_list.body", coll, L["key"], L["level"], L["aligned_max_indent"])]}

    def element(self, E, case, coll):
        return E.str("v")

    def step(self, E, pre, post, elem, case):
        pp = post["self"]
        key = post["key"]
        want = format_line_spec(ws(pp, post["level"] + 1), S.upper(key), quoted(pp, elem), post["aligned_max_indent"])
        ok = len(post["lines"]) == len(pre["lines"]) + 1 and seq_eq(post["lines"][:-1], pre["lines"])
        yield "one-line-per-element", ok
        if ok:
            yield "repeated-line", S.eq(post["lines"][-1], want)


@register
class ProcessRepeatedList(Contract):
    target = "mappyfile.pprint.PrettyPrinter.process_repeated_list"
    props = ("C16", "C03")
    modifies = ()
    loops = {1: RepeatedLoop()}

    def build(self, E, case):
        return (mk_pp(E), E.str("key"), E.abslist("lst"), E.int("level"), E.int("amax")), {}

    def ensures(self, E, case, args, kwargs, out):
        ok = out.kind == "return" and isinstance(out.value, list)
        yield "returns-list", ok
        if ok:
            yield "only-element-lines", len(out.value) == 1 and isinstance(out.value[0], Seg)

    def at_call(self, E, pp, key, lst, level, aligned_max_indent=1):
        return [Seg("process_repeated_list", key, lst, level, aligned_max_indent)]


class ProjectionLoop(LoopSpec):
    def carried(self, E, L, coll):
        return {"lines": [Seg("projection.lines@pre")]}

    def exit_state(self, E, L, coll):
        return {"lines": list(L["lines"]) + [Seg("process_projection.body", coll, L["level"])]}

    def element(self, E, case, coll):
        return E.str("v")

    def step(self, E, pre, post, elem, case):
        pp = post["self"]
        want = S.concat(ws(pp, post["level"] + 2), quoted(pp, elem))
        ok = len(post["lines"]) == len(pre["lines"]) + 1 and seq_eq(post["lines"][:-1], pre["lines"])
        yield "one-line-per-string", ok
        if ok:
            yield "projection-line", S.eq(post["lines"][-1], want)


@register
class ProcessProjection(Contract):
    target = "mappyfile.pprint.PrettyPrinter.process_projection"
    cases = ["string", "auto", "list1-nonauto", "list2", "abslist", "abslist+comment", "string+comment"]
    props = ("C16", "C03", "C14")
    modifies = ()
    loops = {1: ProjectionLoop()}
    loop_cases = {1: ["abslist", "abslist+comment"]}
    doc = "abslist: a list of unknown length that is not the one-element AUTO list (len != 1 is stated as the case's assumption by using an abstract list whose len() is not 1)"

    def build(self, E, case):
        pc = ""
        kind = case.split("+")[0]
        if case.endswith("+comment"):
            pc = E.str("pc")
            E.assume(pc != "")
        if kind == "string":
            lst = E.str("proj")
        elif kind == "auto":
            a = E.str("a")
            E.assume(S.eq(S.upper(a), "AUTO"))
            lst = [a]
        elif kind == "list1-nonauto":
            a = E.str("a")
            E.assume(S.not_(S.eq(S.upper(a), "AUTO")))
            lst = [a]
        elif kind == "list2":
            lst = [E.str("a"), E.str("b")]
        else:
            lst = E.abslist("lst", length=E.int("n"))
            E.assume(S.and_(lst.info["length"] >= 0, lst.info["length"] != 1))
        return (mk_pp(E), "projection", lst, E.int("level"), pc), {}

    def ensures(self, E, case, args, kwargs, out):
        pp, key, lst, level, pc = args
        ok = out.kind == "return" and isinstance(out.value, list)
        yield "returns-list", ok
        if not ok:
            return
        lines = out.value
        yield "opener", len(lines) >= 2 and S.eq(lines[0], S.concat(ws(pp, level + 1), "PROJECTION"))
        yield "end", len(lines) >= 2 and S.eq(lines[-1], end_line(pp, level + 1, key))
        body = lines[1:-1]
        w2 = ws(pp, level + 2)
        if case.endswith("+comment"):
            yield "comment-line", len(body) >= 1 and S.eq(body[0], S.concat(w2, S.strip(pc)))
            body = body[1:]
        kind = case.split("+")[0]
        if kind == "string":
            yield "single-string", len(body) == 1 and S.eq(body[0], S.concat(w2, quoted(pp, lst)))
        elif kind == "auto":
            yield "auto-bare", len(body) == 1 and S.eq(body[0], S.concat(w2, "AUTO"))
        elif kind in ("list1-nonauto", "list2"):
            yield "one-line-per-string", len(body) == len(lst) and S.and_(*[S.eq(b, S.concat(w2, quoted(pp, x))) for b, x in zip(body, lst)])
        else:
            yield "body-is-loop", len(body) == 1 and isinstance(body[0], Seg) and body[0].key[0] == "process_projection.body"

    def at_call(self, E, pp, key, lst, level, projection_comments):
        return [Seg("process_projection", key, lst, level, projection_comments)]


# ---------------------------------------------------------------------------------------------
# pair lists (PATTERN / POINTS)
# ---------------------------------------------------------------------------------------------

def pair_line(pp, level, a, b):
    return S.concat(ws(pp, level + 2), S.to_str(a), " ", S.to_str(b))


@register
class FormatPairList(Contract):
    target = "mappyfile.pprint.PrettyPrinter.format_pair_list"
    cases = ["abs", "two", "empty"]
    props = ("C16", "C03")
    modifies = ()

    def build(self, E, case):
        if case == "abs":
            pl = E.abslist("pairs")
        elif case == "two":
            pl = [(E.int("a0"), E.real("b0")), (E.real("a1"), E.int("b1"))]
        else:
            pl = []
        return (mk_pp(E), E.str("key"), pl, E.int("level")), {}

    def ensures(self, E, case, args, kwargs, out):
        pp, key, pl, level = args
        ok = out.kind == "return" and isinstance(out.value, list) and len(out.value) >= 2
        yield "returns-list", ok
        if not ok:
            return
        lines = out.value
        yield "opener", S.eq(lines[0], S.concat(ws(pp, level + 1), S.upper(key)))
        yield "end", S.eq(lines[-1], end_line(pp, level + 1, key))
        body = lines[1:-1]
        if case == "abs":
            good = len(body) == 1 and isinstance(body[0], Seg) and body[0].key[0] == "comprehension" and body[0].key[1].source is pl
            yield "one-line-per-pair", good
            if good and E.symbolic:
                a, b = E.int("pa"), E.real("pb")
                cond, val = body[0].key[1].apply((a, b))
                yield "pair-line", S.and_(cond, S.eq(val, pair_line(pp, level, a, b)))
        else:
            yield "pair-lines", len(body) == len(pl) and S.and_(*[S.eq(l, pair_line(pp, level, p[0], p[1])) for l, p in zip(body, pl)])

    def at_call(self, E, pp, key, pair_list, level):
        return [Seg("format_pair_list", key, pair_list, level)]


@register
class FormatRepeatedPairList(Contract):
    target = "mappyfile.pprint.PrettyPrinter.format_repeated_pair_list"
    cases = ["single:0", "single:1", "single:2", "multi:2", "multi:1"]
    props = ("C16", "C03")
    modifies = ()
    doc = ("shape-bounded: one part of 1-2 pairs / 1-2 parts (the depth() helper recurses over the concrete shape); "
           "the empty list is one (empty) block")

    def build(self, E, case):
        kind, n = case.split(":")
        n = int(n)
        mkp = lambda i: (E.int(f"a{i}"), E.int(f"b{i}"))
        if kind == "single":
            root = [mkp(i) for i in range(n)]
        else:
            root = [[mkp(2 * j), mkp(2 * j + 1)] for j in range(n)]
        return (mk_pp(E), "points", root, E.int("level")), {}

    def ensures(self, E, case, args, kwargs, out):
        pp, key, root, level = args
        kind, n = case.split(":")
        parts = [root] if kind == "single" else root
        ok = out.kind == "return" and isinstance(out.value, list)
        yield "returns-list", ok
        if ok:
            want = [Seg("format_pair_list", key, p, level) for p in parts]
            yield "one-block-per-part", seq_eq(out.value, want)

    def at_call(self, E, pp, key, root_list, level):
        return [Seg("format_repeated_pair_list", key, root_list, level)]


# ---------------------------------------------------------------------------------------------
# complex-type grouping (C06)
# ---------------------------------------------------------------------------------------------

def complex_type_spec(key, v, level):
    t = _tables()
    return S.and_(S.not_(S.and_(S.eq(key, "symbol"), level > 0)),
                  S.or_(S.in_const_set(key, t["cx"]), hidden_container(key, v)))


@register
class IsComplexType(Contract):
    target = "mappyfile.pprint.PrettyPrinter.is_complex_type"
    cases = ["str", "list", "composite"]
    modifies = ()

    def build(self, E, case):
        key = E.str("key")
        E.assume(S.eq(S.lower(key), key))     # representation invariant of Mapfile dicts (C17): keys are lower-case
        v = mk_value(E, case) if case != "list" else [E.str("x")]
        d = E.odict(entries=[(key, v)], ci=True)
        return (mk_pp(E), d, key, E.int("level")), {}

    def ensures(self, E, case, args, kwargs, out):
        pp, d, key, level = args
        v = d.entries[0][1]
        yield "result", out.kind == "return" and S.eq(S.truthy(out.value), complex_type_spec(key, v, level))


@register
class SeparateComplex(Contract):
    """stable partition: simple keys first, complex keys after, relative order kept inside each group;
    values untouched; identity when the option is off.  Shapes: dicts of 0..3 items with symbolic keys;
    longer dicts follow by the pair-projection argument (DESIGN C06): the relative order of two keys after
    the loop depends only on the move_to_end calls on those two keys."""
    target = "mappyfile.pprint.PrettyPrinter.separate_complex"
    cases = ["off:2", "on:0", "on:1", "on:2", "on:3"]
    props = ("C06", "C12")

    def build(self, E, case):
        flag, n = case.split(":")
        n = int(n)
        keys = [E.str(f"k{i}") for i in range(n)]
        for i in range(n):
            E.assume(S.eq(S.lower(keys[i]), keys[i]))
            for j in range(i):
                E.assume(keys[i] != keys[j])
        vals = [E.str(f"v{i}") for i in range(n)]
        self_cx = [E.bool(f"list{i}") for i in range(n)]
        entries = list(zip(keys, vals))
        d = E.odict(entries=entries, ci=True)
        pp = mk_pp(E, separate=(flag == "on"))
        return (pp, d, E.int("level")), {}

    def ensures(self, E, case, args, kwargs, out):
        pp, d, level = args
        flag, n = case.split(":")
        n = int(n)
        yield "returns-None", out.kind == "return" and out.value is None
        if out.kind != "return":
            return
        keys = [E.ctx.symbols[f"k{i}"] if E.symbolic else E.values.get(f"k{i}", "") for i in range(n)]
        vals = [E.ctx.symbols[f"v{i}"] if E.symbolic else E.values.get(f"v{i}", "") for i in range(n)]
        after = d.items() if not isinstance(d, dict) else list(d.items())
        after = list(after)
        yield "no-key-lost-or-added", len(after) == n
        if len(after) != n:
            return
        if flag == "off":
            yield "identity", S.and_(*[S.and_(S.eq(a[0], k), S.eq(a[1], v)) for a, k, v in zip(after, keys, vals)])
            return
        cx = [complex_type_spec(k, v, level) for k, v in zip(keys, vals)]
        # position of original item i in the result
        def pos(i):
            p = -1
            for j in range(n - 1, -1, -1):
                p = S.ite(S.eq(after[j][0], keys[i]), j, p)
            return p
        ps = [pos(i) for i in range(n)]
        for i in range(n):
            yield f"item{i}-kept-with-value", S.and_(ps[i] >= 0, S.or_(*[S.and_(S.eq(ps[i], j), S.eq(after[j][1], vals[i])) for j in range(n)]))
        for i in range(n):
            for j in range(i + 1, n):
                # i was before j
                yield f"order({i},{j})", S.ite(S.eq(cx[i], cx[j]), ps[i] < ps[j], S.ite(cx[i], ps[j] < ps[i], ps[i] < ps[j]))

    def at_call(self, E, pp, composite, level):
        # used by _format on an abstract dict: the element-wise loop contract does not depend on item order
        E.ctx.notes.append(("separate-complex-call", composite, level))
        return None


# ---------------------------------------------------------------------------------------------
# _format and pprint
# ---------------------------------------------------------------------------------------------

SPECIAL_KEYS = ("pattern", "metadata", "validation", "values", "connectionoptions", "projection", "points", "config")


def _add_type_comment_at_call(self, E, pp, level, comments, lines):
    from pyvc.engine import MDict
    from pyvc import models
    if isinstance(comments, AbsComments):
        lines.append(Seg("type-comment?", comments, level))
        return None
    if isinstance(comments, MDict) and comments.tail is None:
        if "__type__" in comments:
            c = composite_comment_spec(pp, level, comments["__type__"])
            if E.interp.ctx.branch(S.truthy(c)):
                lines.append(c)
        return None
    raise NotImplementedError


AddTypeComment.at_call = _add_type_comment_at_call


def _pa_comment_at_call(self, E, pp, comments, key):
    return comment_suffix_any(E, comments, key)


def comment_suffix_any(E, comments, key):
    from pyvc.engine import MDict
    from pyvc import models
    if isinstance(comments, AbsComments):
        return comments.suffix(E, key)
    if isinstance(comments, MDict) and comments.tail is None:
        I = E.interp
        if not I.ctx.branch(models.mdict_contains(I, comments, key)):
            return ""
        return attribute_comment_spec(models.mdict_getitem(I, comments, key))
    raise NotImplementedError


ProcessAttributeComment.at_call = _pa_comment_at_call


def comment_suffix(E, comments, key):       # noqa: F811  (final definition, used by the loop specs)
    from pyvc.engine import MDict
    if isinstance(comments, AbsComments):
        return comments.suffix(E, key)
    if isinstance(comments, MDict) and not comments.entries and comments.tail is None:
        return ""
    raise NotImplementedError("comment_suffix for " + repr(comments))


class ChildrenLoop(LoopSpec):
    """for v in value: lines += self._format(v, level + 1)"""

    def carried(self, E, L, coll):
        return {"lines": [Seg("_format.lines@pre2")]}

    def exit_state(self, E, L, coll):
        return {"lines": list(L["lines"]) + [Seg("children", coll, L["level"] + 1)]}

    def element(self, E, case, coll):
        return E.absdict("child", entries=[("__type__", E.str("child.type"))], ci=True)

    def step(self, E, pre, post, elem, case):
        yield "child-block-at-level+1", seq_eq(post["lines"], pre["lines"] + [Seg("_format", elem, post["level"] + 1)])


FORMAT_ELEM_CASES = ["hidden", "childlist", "pattern", "keyvalue", "projection", "repeated", "points", "config",
                     "composite", "attr:str", "attr:int", "attr:bool"]


class FormatLoop(LoopSpec):
    elem_cases = FORMAT_ELEM_CASES

    def carried(self, E, L, coll):
        return {"lines": [Seg("_format.lines@pre")]}

    def inv(self, E, L):
        # C16: the column handed to every keyword line of this object is 0 without align_values, and with it the aligned
        # column computed from the longest simple keyword of THIS object (not of a parent, a child or an earlier call)
        pp, am = L["self"], L.get("aligned_max_indent")
        amax = [n for n in E.ctx.notes if isinstance(n, tuple) and n and n[0] == "amax-call"]
        mkl = [n for n in E.ctx.notes if isinstance(n, tuple) and n and n[0] == "mkl-call"]
        if amax or mkl:
            tied = len(amax) == 1 and len(mkl) == 1 and amax[0][2] is mkl[0][1] and mkl[0][2] is L["composite"] and am is amax[0][1]
            yield "alignment-column-of-this-object", S.and_(tied, pp.align_values)
        else:
            yield "no-alignment-column-without-align_values", S.and_(S.not_(pp.align_values), S.eq(am, 0) if am is not None else False)
        # C06: the items are visited AFTER separate_complex had its say on this object (it is the only place where
        # separate_complex_types takes effect; its own contract says what it may move)
        sc = [n for n in E.ctx.notes if isinstance(n, tuple) and n and n[0] == "separate-complex-call"]
        yield "separate_complex-applied-to-this-object-before-its-items", len(sc) == 1 and sc[0][1] is L["composite"] and sc[0][2] is L["level"]

    def exit_state(self, E, L, coll):
        return {"lines": list(L["lines"]) + [Seg("_format.body", coll.info["owner"], L["level"])]}

    def element(self, E, case, coll):
        t = _tables()
        attr = E.str("attr")
        E.assume(S.eq(S.lower(attr), attr))
        special = S.or_(S.in_const_set(attr, SPECIAL_KEYS), S.in_const_set(attr, t["rep"]))
        if case == "hidden":
            E.assume(is_hidden_key(attr))
            return (attr, E.str("val"))
        E.assume(S.not_(is_hidden_key(attr)))
        if case == "childlist":
            E.assume(S.in_const_set(attr, t["olk"]))
            return (attr, E.abslist("children"))
        if case == "pattern":
            E.assume(S.eq(attr, "pattern"))
            return (attr, E.abslist("pairs"))
        if case == "keyvalue":
            E.assume(S.in_const_set(attr, KEYVALUE_BLOCKS))
            return (attr, E.absdict("kv", entries=[("__type__", attr)], ci=True, absent=("__comments__",)))
        if case == "projection":
            E.assume(S.eq(attr, "projection"))
            return (attr, E.abslist("proj"))
        if case == "repeated":
            E.assume(S.in_const_set(attr, t["rep"]))
            return (attr, E.abslist("rep"))
        if case == "points":
            E.assume(S.eq(attr, "points"))
            return (attr, E.abslist("points"))
        if case == "config":
            E.assume(S.eq(attr, "config"))
            return (attr, E.absdict("cfg", entries=[], ci=True, absent=("__type__",)))
        E.assume(S.not_(special))
        if case == "composite":
            return (attr, E.absdict("child", entries=[("__type__", E.str("child.type"))], ci=True))
        E.assume(S.not_(S.in_const_set(attr, t["olk"])))
        return (attr, build_value(E, case.split(":")[1]))

    def step(self, E, pre, post, elem, case):
        attr, v = elem
        pp = post["self"]
        level = post["level"]
        comments = post["comments"]
        lines, base = post["lines"], pre["lines"]
        if case == "hidden":
            want = []
        elif case == "childlist":
            want = [Seg("children", v, level + 1)]
        elif case == "pattern":
            want = [Seg("format_pair_list", attr, v, level)]
        elif case == "keyvalue":
            want = [Seg("process_key_dict", attr, v, level)]
        elif case == "projection":
            want = [Seg("process_projection", attr, v, level, comment_suffix_any(E, comments, attr))]
        elif case == "repeated":
            want = [Seg("process_repeated_list", attr, v, level, post["aligned_max_indent"])]
        elif case == "points":
            want = [Seg("format_repeated_pair_list", attr, v, level)]
        elif case == "config":
            want = [Seg("process_config_dict", v, level)]
        elif case == "composite":
            want = [Seg("_format", v, level + 1)]
        else:
            amax = post["aligned_max_indent"]
            line = S.concat(process_attribute_spec(E, pp, post["type_"], attr, v, level, amax),
                            comment_suffix_any(E, comments, attr))
            want = [line]
            # C16 alignment: the value column lies past the keyword (at least one blank), and with
            # align_values it is the same column for every simple keyword of the object
            klen = S.length(S.upper(attr))
            col = S.ite(S.eq(amax, 0), klen + 1, amax)
            yield "separator-nonempty", S.implies(S.eq(klen, S.length(attr)), col > klen)
        yield "lines-for-this-key", seq_eq(lines, base + want)


@register
class Format(Contract):
    target = "mappyfile.pprint.PrettyPrinter._format"
    cases = ["nocomments", "abscomments", "notype"]
    props = ("C16", "C03", "C14", "C13")
    loops = {1: FormatLoop(), 2: ChildrenLoop()}
    loop_cases = {1: ["nocomments", "abscomments"], 2: ["nocomments", "abscomments"]}
    nested = {2: (1, "childlist")}
    modifies = ()     # separate_complex (the only writer) is used through its own contract
    doc = ("comments + [ws(level)+TYPE] + body + [ws(level)+END(+ # TYPE)], body = concatenation over the items, in "
           "order, of the lines the statement prescribes for the item's kind; nested objects by this contract at level+1")

    def build(self, E, case):
        t = _tables()
        typ = E.str("type")
        E.assume(S.in_const_set(typ, t["names"]))
        entries = [("__type__", typ)]
        absent = ()
        if case == "notype":
            # a dictionary that is not a Mapfile object (no __type__): refused, nothing is returned as text (C03)
            d = E.absdict("composite", entries=[], ci=True, absent=("__type__", "__comments__"))
            level = E.int("level")
            E.assume(level >= 0)
            return (mk_pp(E), d, level), {}
        if case == "abscomments":
            entries.append(("__comments__", AbsComments()))
        else:
            absent = ("__comments__",)
        d = E.absdict("composite", entries=entries, ci=True, absent=absent)
        level = E.int("level")
        E.assume(level >= 0)
        return (mk_pp(E), d, level), {}

    def ensures(self, E, case, args, kwargs, out):
        pp, d, level = args
        if case == "notype":
            yield "refused-with-an-error", out.kind == "raise" and issubclass(out.exc, (UnboundLocalError, NameError))
            return
        typ = d["__type__"]
        ok = out.kind == "return" and isinstance(out.value, list)
        yield "returns-list", ok
        if not ok:
            return
        lines = out.value
        n = 3 if case == "nocomments" else 4
        yield "shape", len(lines) == n
        if len(lines) != n:
            return
        if case == "abscomments":
            yield "type-comment-first", isinstance(lines[0], Seg) and lines[0].key[0] == "type-comment?"
        yield "opener", S.eq(lines[-3], S.concat(ws(pp, level), S.upper(typ)))
        yield "body", isinstance(lines[-2], Seg) and lines[-2].key[0] == "_format.body" and lines[-2].key[1] is d
        yield "end", S.eq(lines[-1], end_line(pp, level, typ))

    def at_call(self, E, pp, composite, level=0):
        return [Seg("_format", composite, level)]


class PprintLoop(LoopSpec):
    elem_cases = ["object", "keyvalue-root"]

    def carried(self, E, L, coll):
        return {"lines": [Seg("pprint.lines@pre")]}

    def exit_state(self, E, L, coll):
        return {"lines": list(L["lines"]) + [Seg("pprint.body", coll)]}

    def element(self, E, case, coll):
        t = E.str("root.type")
        kv = S.in_const_set(t, ("metadata", "validation", "connectionoptions"))
        E.assume(kv if case == "keyvalue-root" else S.not_(kv))
        return E.absdict("root", entries=[("__type__", t)], ci=True)

    def step(self, E, pre, post, elem, case):
        if case == "object":
            want = [Seg("_format", elem, 0)]
        else:
            want = [Seg("process_key_dict", elem["__type__"], elem, 0)]
        yield "root-block", seq_eq(post["lines"], pre["lines"] + want)


@register
class Pprint(Contract):
    target = "mappyfile.pprint.PrettyPrinter.pprint"
    cases = ["one-object", "two-objects", "list"]
    props = ("C16", "C03", "C12")
    loops = {1: PprintLoop()}
    loop_cases = {1: ["list"]}
    modifies = ()
    doc = "result = newlinechar.join(lines): every line break between lines is newlinechar"

    def build(self, E, case):
        mk = lambda i: E.absdict(f"root{i}", entries=[("__type__", E.str(f"type{i}"))], ci=True)
        if case == "one-object":
            c = mk(0)
            E.assume(S.not_(S.in_const_set(c["__type__"], ("metadata", "validation", "connectionoptions"))))
        elif case == "two-objects":
            c = [mk(0), mk(1)]
            for x in c:
                E.assume(S.not_(S.in_const_set(x["__type__"], ("metadata", "validation", "connectionoptions"))))
        else:
            c = E.abslist("composites", truthy=True)
        return (mk_pp(E), c), {}

    def ensures(self, E, case, args, kwargs, out):
        # the join over Segs is not a string: the engine's join keeps it symbolic as JoinOf
        yield "returns", out.kind == "return"
        if out.kind != "return":
            return
        pp, c = args
        r = out.value
        good = isinstance(r, JoinOf) and S.truthy(S.eq(r.sep, pp.newlinechar)) is True
        yield "joined-with-newlinechar", good
        if not good:
            return
        if case == "one-object":
            yield "lines", seq_eq(r.parts, [Seg("_format", c, 0)])
        elif case == "two-objects":
            yield "lines", seq_eq(r.parts, [Seg("_format", c[0], 0), Seg("_format", c[1], 0)])
        else:
            yield "lines", len(r.parts) == 1 and isinstance(r.parts[0], Seg) and r.parts[0].key[0] == "pprint.body"


class JoinOf:
    """sep.join(parts) where parts contains opaque segments"""
    def __init__(self, sep, parts):
        self.sep = sep
        self.parts = parts


def _install_join_model():
    from pyvc import models
    orig = models._sym_str_join

    def join(I, s, xs):
        from pyvc.absx import Seg
        if isinstance(xs, list) and any(isinstance(x, Seg) for x in xs):
            return JoinOf(s, list(xs))
        return orig(I, s, xs)
    models._sym_str_join = join
    models._SYM_STR_METHODS["join"] = join
    orig_str = models.py_str

    def py_str(I, v):
        if isinstance(v, JoinOf):
            return v
        return orig_str(I, v)
    models.py_str = py_str
    orig_truth = models.py_truth

    def py_truth(I, v):
        if isinstance(v, AbsColl):
            if v.info.get("truthy"):
                return True
            if "length" in v.info:
                return S.cmp(">", v.info["length"], 0)
        return orig_truth(I, v)
    models.py_truth = py_truth


_install_join_model()
