"""Contracts for mappyfile/parser.py."""
from __future__ import annotations
import z3
from pyvc import sym as S
from pyvc.api import Contract, register
from pyvc.engine import TokenM, MDict, PyRaise
from pyvc.absx import AbsColl, AbsSeqList, Seg, LoopSpec, Ghost, add_fact


# ---------------------------------------------------------------------------------------------
# ghosts for Lark's interactive parser (assumed contract: iter_parse yields every token *before* feeding it;
# value_stack holds the shifted tokens / reduced trees)
# ---------------------------------------------------------------------------------------------

class StateGhost(Ghost):
    def __init__(self, stack):
        self.value_stack = stack


class IPGhost(Ghost):
    def __init__(self, E, text):
        self.text = text
        self.tokens = AbsColl("iter_parse", ip=self)
        self.parser_state = StateGhost(None)
        self.resumed = False

    def iter_parse(self, I):
        return self.tokens

    def resume_parse(self, I):
        self.resumed = True
        err = getattr(self.owner, "ghost_lark_error", None) if getattr(self, "owner", None) is not None else None
        if err is not None:
            raise err
        # A: by now the lexer callbacks have appended this text's comment tokens to the parser's buffer
        owner = getattr(self, "owner", None)
        if owner is not None and owner.include_comments:
            for c in getattr(owner, "ghost_comments", []):
                owner._comments.append(c)
        return Seg("lark-tree", self.text)


class LalrGhost(Ghost):
    def __init__(self):
        self.calls = []

    def parse_interactive(self, I, text):
        ip = IPGhost(I.E, text)
        ip.owner = getattr(self, "owner", None)
        self.calls.append(ip)
        return ip


def mk_parser(E, expand=None, comments=False):
    from mappyfile.parser import Parser
    p = Parser.__new__(Parser)
    p.expand_includes = E.bool("expand_includes") if expand is None else expand
    p.include_comments = comments
    p._comments = []
    p.lalr = LalrGhost()
    p.lalr.owner = p
    p.kwargs = {}
    return p


def symbol_attributes():
    from mappyfile.parser import SYMBOL_ATTRIBUTES
    return sorted(SYMBOL_ATTRIBUTES)


def retype_spec(ttype, tvalue, top):
    """the documented re-typing rule, case-insensitive like every keyword: a bare word after the keyword SYMBOL
    that is not one of SYMBOL's own keywords, and GRID after the keyword NAME, are values"""
    if top is None or S.sort_of(top) != S.STR:
        top_sym = top_name = False
    else:
        top_sym = S.eq(S.upper(top), "SYMBOL")
        top_name = S.eq(S.upper(top), "NAME")
    return S.or_(S.and_(ttype == "UNQUOTED_STRING", top_sym, S.not_(S.in_const_set(S.upper(tvalue), symbol_attributes()))),
                 S.and_(ttype == "GRID", top_name))


class ParseLoop(LoopSpec):
    elem_cases = [f"{t}/{s}" for t in ("UNQUOTED_STRING", "GRID", "OTHER") for s in ("empty", "token", "tree")]

    def carried(self, E, L, coll):
        return {}

    def element(self, E, case, coll):
        ttype, stack = case.split("/")
        ip = coll.info["ip"]
        v = E.str("tok.value")
        t = E.token(ttype, v, v, E.int("tok.line"), E.int("tok.column"))
        if stack == "empty":
            ip.parser_state.value_stack = []
        elif stack == "token":
            top = E.str("top.text")
            ip.parser_state.value_stack = E.absseq("stack", [], lambda E, tag: Seg("stack-item"), [E.token("X", top, top)])
        else:
            ip.parser_state.value_stack = E.absseq("stack", [], lambda E, tag: Seg("stack-item"), [Seg("a-tree")])
        return t

    def step(self, E, pre, post, elem, case):
        ttype, stack = case.split("/")
        ip = post["ip"]
        vs = ip.parser_state.value_stack
        top = None
        if stack == "token":
            top = vs.tail[-1].text
        want = retype_spec(ttype, E.ctx.symbols["tok.value"], top)
        yield "retyped-iff-rule", S.ite(want, elem.type == "UNQUOTED_STRING_VALUE", elem.type == ttype)
        yield "token-text-untouched", S.eq(elem.value, E.ctx.symbols["tok.value"])
        yield "position-untouched", S.and_(S.eq(elem.line, E.ctx.symbols["tok.line"]), S.eq(elem.column, E.ctx.symbols["tok.column"]))


@register
class ParseWithComments(Contract):
    """include_comments=True: the line -> comment table is rebuilt from THIS parse's comments only (nothing of an
    earlier parse survives, C12), one stripped entry per comment line (C14), then handed to _assign_comments"""
    target = "mappyfile.parser.Parser.parse"
    cases = ["two-comments"]
    props = ("C12", "C14")

    @property
    def name(self):
        return "mappyfile.parser.Parser.parse/comments"

    def build(self, E, case):
        p = mk_parser(E, expand=False, comments=True)
        stale_line = E.int("stale.line")
        p.comments_dict = E.odict(pycls=dict, entries=[(stale_line, E.str("stale.text"))])
        p._comments.append(E.token("COMMENT", E.str("old.comment"), None, E.int("old.line"), 1))
        c1 = E.token("COMMENT", E.str("c1.text"), None, E.int("c1.line"), E.int("c1.col"))
        c2 = E.token("CCOMMENT", E.str("c2.text"), None, E.int("c2.line"), E.int("c2.col"))
        E.assume(S.and_(stale_line != c1.line, stale_line != c2.line, c1.line != c2.line))
        p.ghost_comments = [c1, c2]
        E.__dict__["cs"] = (c1, c2, stale_line)
        return (p, E.str("text"), None), {}

    def ensures(self, E, case, args, kwargs, out):
        p = args[0]
        c1, c2, stale_line = E.__dict__["cs"]
        yield "returns", out.kind == "return"
        if out.kind != "return":
            return
        cd = p.comments_dict
        ents = cd.items() if not hasattr(cd, "entries") else cd.entries
        ents = list(ents)
        yield "only-this-parse's-comments", len(ents) == 2
        if len(ents) == 2:
            yield "keyed-by-line-stripped-text", S.and_(S.eq(ents[0][0], c1.line), S.eq(ents[0][1], S.strip(c1.value)), S.eq(ents[1][0], c2.line), S.eq(ents[1][1], S.strip(c2.value)))
        yield "buffer-holds-only-this-parse's-comments", len(p._comments) == 2
        yield "comments-assigned-on-the-tree", any(isinstance(n_, tuple) and n_ and n_[0] == "assign-call" for n_ in E.ctx.notes) if E.symbolic else True


def lark_error(kind):
    """a PyRaise carrying exactly the attributes a REAL exception of the installed Lark has (taken from a real instance
    raised by the repository's grammar on a tiny bad input, so the model cannot drift from the library)"""
    from mappyfile.parser import Parser
    text = {"UnexpectedCharacters": "MAP @ END", "UnexpectedToken": "MAP END END"}[kind]
    try:
        Parser().lalr.parse(text)
    except Exception as real:        # noqa: BLE001 - the exception object itself is what is wanted
        if type(real).__name__ != kind:
            raise LookupError(f"lark raised {type(real).__name__} for {text!r}, expected {kind}")
        pr = PyRaise(type(real), real.args, "lark")
        for k, v in vars(real).items():
            setattr(pr, k, v)
        return pr
    raise LookupError(f"lark accepted {text!r}")


@register
class ParseRejects(Contract):
    """a syntax error found by Lark (either kind: no terminal matches / a token in the wrong place) leaves parse as
    that same Lark exception - nothing else is raised on the way out (C11: no other exception type escapes)"""
    target = "mappyfile.parser.Parser.parse"
    cases = ["UnexpectedCharacters/fn", "UnexpectedCharacters/nofn", "UnexpectedToken/fn", "UnexpectedToken/nofn"]
    props = ("C11",)

    @property
    def name(self):
        return "mappyfile.parser.Parser.parse/rejects"

    def build(self, E, case):
        kind, fn = case.split("/")
        p = mk_parser(E, expand=False)
        p.ghost_lark_error = lark_error(kind)
        E.__dict__["err"] = p.ghost_lark_error
        return (p, E.str("text"), E.str("fn") if fn == "fn" else None), {}

    def ensures(self, E, case, args, kwargs, out):
        err = E.__dict__["err"]
        yield "the-lark-exception-propagates", out.kind == "raise" and out.exc is err.etype and out.exc_args == err.eargs

    def replay_supported(self):
        return False


@register
class Parse(Contract):
    target = "mappyfile.parser.Parser.parse"
    cases = ["noexpand", "expand"]
    props = ("C11", "C05", "C02", "C15", "C12")
    loops = {1: ParseLoop()}
    doc = ("interactive loop: for an arbitrary token and an arbitrary value stack (empty / token on top / tree on top) "
           "no exception is raised and the token is re-typed exactly by the documented, case-insensitive rule; "
           "text goes through load_includes iff expand_includes; include_comments=False")

    def build(self, E, case):
        p = mk_parser(E, expand=(case == "expand"))
        return (p, E.str("text"), None), {}

    def ensures(self, E, case, args, kwargs, out):
        p, text, fn = args
        ok = out.kind == "return"
        yield "returns-the-lark-tree", ok and isinstance(out.value, Seg) and out.value.key[0] == "lark-tree"
        if ok and isinstance(out.value, Seg):
            parsed = out.value.key[1]
            if case == "noexpand":
                yield "text-parsed-untouched", parsed is text
            else:
                yield "text-expanded-first", isinstance(parsed, Seg) and parsed.key[0] == "load_includes" and parsed.key[1] is text
            yield "one-interactive-parse", len(p.lalr.calls) == 1 and p.lalr.calls[0].resumed

    def at_call(self, E, p, text, fn=None):
        return Seg("parse", p, text, fn)


# ---------------------------------------------------------------------------------------------
# includes (C15)
# ---------------------------------------------------------------------------------------------

inc_name = z3.Function("include_filename", z3.StringSort(), z3.StringSort())
fs_text = z3.Function("ghost_fs_text", z3.StringSort(), z3.StringSort())
fs_exists = z3.Function("ghost_fs_exists", z3.StringSort(), z3.BoolSort())
os_isabs = z3.Function("os_path_isabs", z3.StringSort(), z3.BoolSort())
os_join = z3.Function("os_path_join", z3.StringSort(), z3.StringSort(), z3.StringSort())
os_dirname = z3.Function("os_path_dirname", z3.StringSort(), z3.StringSort())
os_abspath = z3.Function("os_path_abspath", z3.StringSort(), z3.StringSort())
os_cwd = z3.String("os_getcwd")


class JoinedText:
    """"\\n".join(lines): a text with a ghost decomposition into lines (A: split/join are mutually inverse
    for newline-free pieces).  ``updates``: point updates (index -> replacement text)."""

    def __init__(self, lines, updates=None):
        self.lines = lines
        self.updates = updates


def _install_os_models():
    import os
    from pyvc import models

    def sym(f, sort=S.STR):
        return lambda I, *a: S.Sym(sort, f(*[S.term(x) for x in a]))
    models.EXTRA_MODELS[os.path.isabs] = sym(os_isabs, S.BOOL)
    models.EXTRA_MODELS[os.path.join] = sym(os_join)
    models.EXTRA_MODELS[os.path.dirname] = sym(os_dirname)
    models.EXTRA_MODELS[os.path.abspath] = sym(os_abspath)
    models.EXTRA_MODELS[os.getcwd] = lambda I: S.Sym(S.STR, os_cwd)

    # text.split("\n") / "\n".join(lines) on a JoinedText
    orig_getattr = models.getattr_

    def getattr_(I, obj, name, frame=None):
        if isinstance(obj, JoinedText):
            if name == "split":
                def split(I, jt, sep):
                    if sep != "\n" or jt.updates is not None:
                        from pyvc.engine import OutOfReach
                        raise OutOfReach("split of a JoinedText on another separator")
                    return LinesList(jt.lines)
                return models.BoundModel(split, obj, "split")
        if isinstance(obj, LinesList):
            if name == "pop":
                return models.BoundModel(LinesList.pop, obj, "pop")
            if name == "insert":
                return models.BoundModel(LinesList.insert, obj, "insert")
        return orig_getattr(I, obj, name, frame)
    models.getattr_ = getattr_
    orig_join = models._sym_str_join

    def join(I, s, xs):
        if isinstance(xs, LinesList):
            if s != "\n":
                from pyvc.engine import OutOfReach
                raise OutOfReach("join of lines with another separator")
            if xs.hole is not None:
                from pyvc.engine import OutOfReach
                raise OutOfReach("join of a line list with a pending pop")
            return JoinedText(xs.coll, xs.updates)
        return orig_join(I, s, xs)
    models._sym_str_join = join
    models._SYM_STR_METHODS["join"] = join
    orig_enum = models._BUILTIN_MODELS[enumerate]

    def m_enumerate(I, xs, start=0):
        if isinstance(xs, LinesList):
            return AbsColl("enumerate(lines)", lines=xs, pytype=list)
        return orig_enum(I, xs, start)
    models._BUILTIN_MODELS[enumerate] = m_enumerate
    orig_iter = models.py_iter


class LinesList(Ghost):
    """the list text.split("\\n"): abstract content, with the point updates pop(i); insert(i, x)"""

    def __init__(self, coll):
        self.coll = coll
        self.updates = None
        self.hole = None

    def pop(I, self, idx):
        from pyvc.engine import OutOfReach
        if self.hole is not None:
            raise OutOfReach("two pending pops on the line list")
        self.hole = idx
        I.ctx.log_write(self, "lines.pop")
        return Seg("line", idx)

    def insert(I, self, idx, x):
        from pyvc.engine import OutOfReach
        if self.hole is None or not I.ctx.branch(S.eq(self.hole, idx)):
            raise OutOfReach("insert into the line list at another index than the pending pop")
        self.hole = None
        self.updates = (self.updates or []) + [(idx, x)]
        I.ctx.log_write(self, "lines.insert")
        return None


_install_os_models()


class IncludeScanLoop(LoopSpec):
    """for idx, l in enumerate(lines): collect the expansion of every include line"""
    elem_cases = ["include", "other"]

    def carried(self, E, L, coll):
        from pyvc.engine import MDict
        d = E.absdict("includes@iter", entries=[], pycls=dict)
        d.tail["lazy"] = lambda E, k: Seg("earlier-include")
        return {"includes": d}

    def exit_state(self, E, L, coll):
        d = E.absdict("includes@exit", entries=[], pycls=dict)
        d.tail["fold_of"] = coll
        return {"includes": d}

    def element(self, E, case, coll):
        idx = E.int("idx")
        l = E.str("line")
        E.assume(idx >= 0)
        isinc = S.startswith(S.lower(S.strip(l)), "include")
        E.assume(isinc if case == "include" else S.not_(isinc))
        return (idx, l)

    def step(self, E, pre, post, elem, case):
        idx, l = elem
        inc = post["includes"]
        if case == "other":
            yield "non-include-line-left-alone", len(inc.entries) == 0
            return
        ok = len(inc.entries) == 1
        yield "one-expansion-recorded", ok
        if ok:
            k, v = inc.entries[0]
            yield "recorded-under-the-line-index", S.eq(k, idx)
            # the directory is that of the ARGUMENT fn (cwd + sep when none was given), whatever the local is called now
            import os as _os
            root = E.__dict__.get("fn_arg")
            fn = root if root is not None else S.concat(S.Sym(S.STR, os_cwd), _os.sep)
            name = S.Sym(S.STR, inc_name(l.t))
            path = S.ite(S.Sym(S.BOOL, os_isabs(name.t)), name,
                         S.Sym(S.STR, os_abspath(os_join(os_dirname(S.term(fn)), name.t))))
            good = isinstance(v, Seg) and v.key[0] == "load_includes"
            yield "expanded-recursively", good
            if good:
                yield "content-of-the-referenced-file", isinstance(v.key[1], S.Sym) and S.eq(v.key[1], S.Sym(S.STR, fs_text(path.t)))
                yield "relative-to-the-root-file", S.eq(v.key[2], fn)
                yield "one-level-deeper", S.eq(v.key[3], pre["_nested_includes"] + 1)


class IncludeSpliceLoop(LoopSpec):
    """for idx, txt in includes.items(): lines.pop(idx); lines.insert(idx, txt)"""

    def carried(self, E, L, coll):
        ll = LinesList(L["lines"].coll)
        ll.updates = [Seg("earlier-splices")]
        return {"lines": ll}

    def exit_state(self, E, L, coll):
        ll = LinesList(L["lines"].coll)
        ll.updates = [Seg("all-splices", coll.info.get("owner"))]
        return {"lines": ll}

    def element(self, E, case, coll):
        return (E.int("sidx"), Seg("expansion"))

    def step(self, E, pre, post, elem, case):
        ll = post["lines"]
        idx, txt = elem
        ok = ll.hole is None and ll.updates is not None and len(ll.updates) == 2
        yield "line-replaced-in-place", ok
        if ok:
            yield "same-index-same-text", S.and_(S.eq(ll.updates[1][0], idx), ll.updates[1][1] is txt)


@register
class LoadIncludes(Contract):
    target = "mappyfile.parser.Parser.load_includes"
    cases = ["fn:depth<5", "fn:depth=5", "nofn:depth<5"]
    props = ("C15",)
    loops = {1: IncludeScanLoop(), 2: IncludeSpliceLoop()}
    doc = ("result = the input lines with exactly the include lines replaced, in place, by the recursively expanded "
           "content of the referenced file (resolved against the root file's directory, or cwd + sep when no file name); "
           "ValueError when an include line is met at depth 5; IOError when the file is missing; ghost file system")

    def build(self, E, case):
        fnk, dk = case.split(":")
        p = mk_parser(E)
        lines = AbsColl("lines", pytype=list)
        text = JoinedText(lines)
        fn = E.str("fn") if fnk == "fn" else None
        E.__dict__["fn_arg"] = fn
        n = E.int("nested")
        E.assume(S.and_(n >= 0, n <= 5))
        E.assume(n < 5 if dk == "depth<5" else S.eq(n, 5))
        return (p, text, fn, n), {}

    def raises_ok(self, case, out):
        return False

    def ensures(self, E, case, args, kwargs, out):
        p, text, fn, n = args
        fnk, dk = case.split(":")
        if out.kind == "raise":
            # only inside the arbitrary iteration (an include line): ValueError at depth 5, IOError for a missing file
            if E.__dict__.get("loop_mode") is None:
                yield "no-error-without-an-include-line", False
                return
            if dk == "depth=5":
                yield "depth-limit", out.raised(ValueError)
            else:
                yield "missing-file-only", out.raised(IOError)
            return
        ok = out.kind == "return" and isinstance(out.value, JoinedText)
        yield "returns-joined-lines", ok
        if ok:
            yield "same-lines", out.value.lines is text.lines
            ups = out.value.updates
            yield "spliced-with-the-scan-result", ups is not None and len(ups) == 1 and isinstance(ups[0], Seg) and ups[0].key[0] == "all-splices" \
                and ups[0].key[1] is not None and ups[0].key[1].tail.get("fold_of") is not None

    def at_call(self, E, p, text, fn=None, _nested_includes=0):
        return Seg("load_includes", text, fn, _nested_includes)


def _install_open_model():
    """builtins.open on a symbolic name: the ghost file object of contracts/validator_c (its content stands for 'the text
    in the file of that name at the time of the call'), with the arguments of the call recorded on it"""
    import builtins
    from pyvc import models
    from contracts import validator_c  # noqa: F401  (installs the model this one wraps)
    prev = models.EXTRA_MODELS[builtins.open]
    if getattr(prev, "_records_args", False):
        return

    def m_open(I, fn, *a, **k):
        r = prev(I, fn, *a, **k)
        if isinstance(r, models.FileModel):
            r.open_args = (a, k)
            lst = I.E.__dict__.setdefault("opened", [])
            if not any(x is r for x in lst):
                lst.append(r)
        return r
    m_open._records_args = True
    models.EXTRA_MODELS[builtins.open] = m_open


_install_open_model()


@register
class OpenFile(Contract):
    """Callers see the ghost file system: the text of the file, or IOError when it does not exist.  The body is interpreted
    for an arbitrary name: a file is opened, only on exactly fn, only for reading as UTF-8 text, and what read() delivers is
    returned unchanged; nothing reachable from the arguments is written (no memo on the parser).  A version that consults
    os.stat / a module-level cache is out of reach of this contract (native call on a symbolic name) - the rewrite-history
    part of the front-end seam is the stand-in for that (DESIGN 10.8)."""
    target = "mappyfile.parser.Parser.open_file"
    cases = ["any-name"]
    props = ("C15", "C20")
    modifies = ()

    def build(self, E, case):
        E.__dict__["opened"] = []
        return (mk_parser(E), E.str("fn")), {}

    def ensures(self, E, case, args, kwargs, out):
        p, fn = args
        if not E.symbolic:
            yield "native-replay-not-modelled", True
            return
        opened = E.__dict__.get("opened", [])
        # (the harness's `with` hook for codecs.open evaluates the context expression once before the engine does, so one
        # `with open(...)` is recorded twice: the clauses are stated over every recorded open)
        yield "opens-a-file", len(opened) >= 1
        ok_fn, ok_mode = True, True
        for f in opened:
            a, k = f.open_args
            mode = a[0] if a else k.get("mode", "r")
            ok_fn = ok_fn and f.content is fn
            ok_mode = ok_mode and mode in ("r", "rt") and k.get("encoding", a[2] if len(a) > 2 else None) in ("utf-8", "utf8", "UTF-8") \
                and k.get("errors") in (None, "strict") and k.get("newline") is None
        yield "every-open-is-on-fn", ok_fn
        yield "read-as-utf-8-text", ok_mode
        yield "returns-what-read()-delivers", out.kind == "return" and any(out.value is f.content for f in opened)

    def at_call(self, E, p, fn):
        if not E.interp.ctx.branch(S.Sym(S.BOOL, fs_exists(S.term(fn)))):
            raise PyRaise(IOError, ("No such file",), "open_file")
        return S.Sym(S.STR, fs_text(S.term(fn)))


def _before_hash(line):
    """the text before the first '#', or the whole line when there is none"""
    if not S.is_sym(line):
        return line[:line.index("#")] if "#" in line else line
    t, c = line.t, z3.StringVal("#")
    return S.Sym(S.STR, z3.If(z3.Contains(t, c), z3.SubString(t, 0, z3.IndexOf(t, c, 0)), t))


def _nwords(x):
    return len(x.split()) if not S.is_sym(x) else S.Sym(S.INT, S.py_nwords(x.t))


def _word(x, i):
    return S._native_word(x, i) if not S.is_sym(x) else S.Sym(S.STR, S.py_word(x.t, z3.IntVal(i)))


@register
class GetIncludeFilename(Contract):
    """second blank-separated word of the part before '#', outer quotes removed; ParseError exactly when
    there are fewer than two words (the message text is not modelled).  Proved for every line over the assumed model of str.split() (word count
    and i-th word uninterpreted, models.WordList) and the exact model of split('#')[0]; the built-in itself is exercised
    by the bounded lemma of bounded/seams3.py.  Callers see the uninterpreted include_filename(line)."""
    target = "mappyfile.parser.Parser._get_include_filename"
    cases = ["with-comment", "without-comment"]
    props = ("C15",)
    modifies = ()

    def build(self, E, case):
        line = E.str("line")
        E.assume(S.contains(line, "#") if case == "with-comment" else S.not_(S.contains(line, "#")))
        return (mk_parser(E), line), {}

    def ensures(self, E, case, args, kwargs, out):
        from lark import ParseError
        p, line = args
        pre = _before_hash(line)
        n = _nwords(pre)
        if out.kind == "raise":
            yield "raises-only-ParseError", out.raised(ParseError)
            yield "raises-only-without-a-file-name", S.cmp("<", n, 2)
            return
        yield "returns-only-with-a-file-name", S.cmp(">=", n, 2)
        yield "second-word-with-outer-quotes-removed", S.eq(
            out.value, S.strip_chars(S.strip_chars(_word(pre, 1), "'"), '"'))

    def at_call(self, E, p, line):
        return S.Sym(S.STR, inc_name(S.term(line)))


class FpGhost(Ghost):
    def __init__(self, content, name=None):
        self.content = content
        if name is not None:
            self.name = name

    def read(self, I):
        return self.content


@register
class Load(Contract):
    target = "mappyfile.parser.Parser.load"
    cases = ["named", "unnamed"]
    props = ("C20", "C15")

    def build(self, E, case):
        fp = FpGhost(E.str("content"), E.str("name") if case == "named" else None)
        return (mk_parser(E), fp), {}

    def ensures(self, E, case, args, kwargs, out):
        p, fp = args
        ok = out.kind == "return" and isinstance(out.value, Seg) and out.value.key[0] == "parse"
        yield "parse(fp.read(), fp.name or None)", ok and out.value.key[2] is fp.content and \
            (out.value.key[3] is fp.name if case == "named" else out.value.key[3] is None)


@register
class ParseFile(Contract):
    target = "mappyfile.parser.Parser.parse_file"
    props = ("C20", "C15")

    def build(self, E, case):
        return (mk_parser(E), E.str("fn")), {}

    def ensures(self, E, case, args, kwargs, out):
        p, fn = args
        if out.kind == "raise":
            yield "missing-file", out.raised(IOError)
            return
        ok = out.kind == "return" and isinstance(out.value, Seg) and out.value.key[0] == "parse"
        yield "parse(open_file(fn), fn=fn)", ok and S.truthy(S.eq(out.value.key[2], S.Sym(S.STR, fs_text(fn.t)))) is True and out.value.key[3] is fn
