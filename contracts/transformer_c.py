"""Contracts for mappyfile/transformer.py — MapfileTransformer callbacks.

The callbacks' preconditions (argument shapes) are not hand-written: they are the child-slot lists that
``larkshape`` derives from the compiled grammar, instantiated with the *result kind* of each sub-rule
(KIND below).  Every callback contract also proves that its own result has its declared kind, so the kinds
are closed under the rule graph (induction over the parse tree).
"""
from __future__ import annotations
import os
import z3
from pyvc import sym as S
from pyvc.api import Contract, register
from pyvc.engine import TokenM, MDict
import larkshape as LS

TIER = os.environ.get("VERIF_TIER", "quick")

# ---------------------------------------------------------------------------------------------
# result kinds
# ---------------------------------------------------------------------------------------------
# tok:<sorts>  a Token whose .value has one of the sorts (s=str, i=int, f=float, b=bool, l=list)
# tup / lst    tuple / list of tokens;  attrdict / compdict / str

EXPR_CALLBACKS = ("expression", "not_expression", "comparison", "and_test", "or_test", "add", "sub", "mul", "div",
                  "power", "neg", "func_call", "attr_bind", "list")

KIND = {
    "string": "tok:s", "int": "tok:i", "float": "tok:f", "true": "tok:b", "false": "tok:b",
    "path": "tok:s", "regexp": "tok:s", "runtime_var": "tok:s", "hexcolor": "tok:s", "compare_op": "tok:s",
    "rgb": "tup:3", "num_pair": "tup:2", "int_pair": "tup:2",
    "extent": "lst:4", "colorrange": "lst:6", "hexcolorrange": "lst:2", "attr_bind_pair": "lst:2",
    "attr_mixed_pair": "lst:2", "string_pair": "lst:2", "composite_type": "lst:1",
    "func_params": "str",
    "attr": "attrdict", "config": "attrdict", "projection": "attrdict", "points": "attrdict", "pattern": "attrdict",
    "composite": "compdict", "metadata": "compdict", "validation": "compdict", "values": "compdict",
    "connectionoptions": "compdict", "symbolset": "compdict",
}
for _cb in EXPR_CALLBACKS:
    KIND[_cb] = "tok:s"

TIGHT = dict(OR=0, AND=1, NOT=2, CMP=3, SUM=4, PROD=5, UNARY=6, ATOM=7)


def kind_of_slot(slot):
    if slot[0] == "T":
        return "tok:s"
    return KIND[slot[1]]


class B:
    """builder of symbolic children with unique names"""

    def __init__(self, E):
        self.E = E
        self.n = 0

    def name(self, hint):
        self.n += 1
        return f"{hint}{self.n}"

    def tok(self, sort="s", type_="X", pos=True, tight=None):
        E = self.E
        nm = self.name("t")
        if sort == "s":
            v = E.str(nm + ".value")
        elif sort == "i":
            v = E.int(nm + ".value")
        elif sort == "f":
            v = E.real(nm + ".value")
        elif sort == "b":
            v = E.bool(nm + ".value")
        else:
            raise ValueError(sort)
        text = v if sort == "s" else E.str(nm + ".text")
        line = E.int(nm + ".line") if pos else None
        col = E.int(nm + ".column") if pos else None
        ghost = {}
        if tight is not None:
            ghost["tight"] = tight
        return E.token(type_, text, v, line, col, **ghost)

    def child(self, slot, sort=None):
        """a child value for a grammar slot; tokens take value sort ``sort`` if the kind allows several"""
        k = kind_of_slot(slot)
        if k.startswith("tok:"):
            sorts = k[4:]
            s = sort if (sort and sort in sorts) else sorts[0]
            return self.tok(s, slot[1] if slot[0] == "T" else "R_" + slot[1])
        if k.startswith("tup:"):
            return tuple(self.tok("i") for _ in range(int(k[4:])))
        if k.startswith("lst:"):
            return [self.tok("s") for _ in range(int(k[4:]))]
        if k == "str":
            return self.E.str(self.name("s"))
        raise ValueError(f"no builder for {slot} ({k})")


def same_token(out, tok):
    return out.kind == "return" and out.value is tok


def pos_unchanged(E, tok, name):
    """line/column of a token are never written by value callbacks (C08)"""
    if E.symbolic:
        return S.and_(S.eq(tok.line, E.ctx.symbols[name + ".line"]), S.eq(tok.column, E.ctx.symbols[name + ".column"]))
    return True


# ---------------------------------------------------------------------------------------------
# basic types
# ---------------------------------------------------------------------------------------------

py_int_of = z3.Function("py_int_of_text", z3.StringSort(), z3.IntSort())
py_float_of = z3.Function("py_float_of_text", z3.StringSort(), z3.RealSort())


def _install_numeric_models():
    """int(str) / float(str) on the text of a SIGNED_INT / SIGNED_FLOAT terminal: total (the terminal's regex
    admits only numerals) and equal to an uninterpreted function of the text."""
    from pyvc import models

    def m_int(I, x=0):
        if isinstance(x, TokenM):
            x = x.text
        if S.is_sym(x) and x.sort == S.STR:
            return S.Sym(S.INT, py_int_of(x.t))
        return models_orig_int(I, x)

    def m_float(I, x=0.0):
        if isinstance(x, TokenM):
            x = x.text
        if S.is_sym(x) and x.sort == S.STR:
            return S.Sym(S.REAL, py_float_of(x.t))
        return models_orig_float(I, x)
    import builtins
    models_orig_int = models._BUILTIN_MODELS[builtins.int]
    models_orig_float = models._BUILTIN_MODELS[builtins.float]
    models._BUILTIN_MODELS[builtins.int] = m_int
    models._BUILTIN_MODELS[builtins.float] = m_float


_install_numeric_models()


def mk_tr(E, **flags):
    from mappyfile.transformer import MapfileTransformer
    tr = MapfileTransformer.__new__(MapfileTransformer)
    from mappyfile.quoter import Quoter
    tr.quoter = Quoter()
    tr.include_position = flags["pos"] if "pos" in flags else E.bool("include_position")
    tr.include_comments = flags["com"] if "com" in flags else E.bool("include_comments")
    return tr


class _Cb(Contract):
    """a callback taking the child list t"""
    modifies = None
    cb = None

    @property
    def target(self):
        return "mappyfile.transformer.MapfileTransformer." + self.cb


def _simple_token_cb(cbname, sort, expect, props=("C02", "C08")):
    """callbacks of one terminal child: int, float, true, false, string, path, regexp, runtime_var, hexcolor"""
    class C(_Cb):
        cb = cbname

        @property
        def cases(self):
            return [LS.shape_name(s) for s in LS.shapes(cbname)]

        def build(self, E, case):
            b = B(E)
            shape = next(s for s in LS.shapes(cbname) if LS.shape_name(s) == case)
            t = [b.tok("s", shape[0][1])]
            return (mk_tr(E), t), {}

        def ensures(self, E, case, args, kwargs, out):
            tr, t = args
            tok = t[0]
            ok = same_token(out, tok)
            yield "returns-the-same-token", ok
            if ok:
                yield "value", expect(E, tok)
                yield "position-unchanged", pos_unchanged(E, tok, "t1")
                yield "type-unchanged", tok.type == LS.shapes(cbname)[[LS.shape_name(s) for s in LS.shapes(cbname)].index(case)][0][1]
    C.__name__ = "Cb_" + cbname
    C.props = props
    return register(C)


def _text(E, tok):
    return E.ctx.symbols["t1.value"] if E.symbolic else tok


from contracts.quoter import remove_quotes_spec  # noqa: E402

_simple_token_cb("int", "i", lambda E, tok: S.eq(tok.value, S.Sym(S.INT, py_int_of(_text(E, tok).t))) if E.symbolic else tok.value == int(str(tok)))
_simple_token_cb("float", "f", lambda E, tok: S.eq(tok.value, S.Sym(S.REAL, py_float_of(_text(E, tok).t))) if E.symbolic else tok.value == float(str(tok)))
_simple_token_cb("true", "b", lambda E, tok: tok.value is True)
_simple_token_cb("false", "b", lambda E, tok: tok.value is False)
_simple_token_cb("string", "s", lambda E, tok: S.eq(tok.value, _text(E, tok)))
_simple_token_cb("path", "s", lambda E, tok: S.eq(tok.value, _text(E, tok)))
_simple_token_cb("regexp", "s", lambda E, tok: S.eq(tok.value, _text(E, tok)), props=("C02", "C10"))
_simple_token_cb("runtime_var", "s", lambda E, tok: S.eq(tok.value, _text(E, tok)))
_simple_token_cb("hexcolor", "s", lambda E, tok: S.eq(tok.value, S.lower(remove_quotes_spec(_text(E, tok)))))
_simple_token_cb("compare_op", "s", lambda E, tok: S.eq(tok.value, _text(E, tok)), props=("C10",))


@register
class KeyName(Contract):
    target = "mappyfile.transformer.MapfileTransformer.key_name"
    props = ("C02", "C05")
    modifies = ()

    def build(self, E, case):
        return (mk_tr(E), B(E).tok("s")), {}

    def ensures(self, E, case, args, kwargs, out):
        yield "lower-cased", out.kind == "return" and S.eq(out.value, S.lower(args[1].value))


@register
class CleanString(Contract):
    target = "mappyfile.transformer.MapfileTransformer.clean_string"
    props = ("C02", "C05")
    modifies = ()

    def build(self, E, case):
        return (mk_tr(E), E.str("val")), {}

    def ensures(self, E, case, args, kwargs, out):
        yield "outer-quotes-only", out.kind == "return" and S.eq(out.value, remove_quotes_spec(args[1]))

    def at_call(self, E, tr, val):
        if S.sort_of(val) == S.STR:
            return remove_quotes_spec(val)
        if isinstance(val, list):
            return [self.at_call(E, tr, v) for v in val]
        from pyvc.absx import AbsMap
        if isinstance(val, AbsMap):
            # remove_quotes maps over lists: a list of unknown length is mapped element-wise
            inner = val

            def apply(elem, inner=inner):
                cond, v = inner.apply(elem)
                return cond, self.at_call(E, tr, v)
            return AbsMap(inner.source, apply)
        return val


@register
class Plural(Contract):
    target = "mappyfile.transformer.MapfileTransformer.plural"
    props = ("C02", "C19")
    modifies = ()

    def build(self, E, case):
        return (mk_tr(E), E.str("s")), {}

    def ensures(self, E, case, args, kwargs, out):
        s = args[1]
        yield "plural", out.kind == "return" and S.eq(out.value, S.concat(s, S.ite(S.endswith(s, "s"), "es", "s")))

    def at_call(self, E, tr, s):
        return S.concat(s, S.ite(S.endswith(s, "s"), "es", "s"))


def _fixed_arity_cb(cbname, container, props=("C02",)):
    """callbacks that return their children unchanged as a tuple / list: rgb, num_pair, extent, colorrange, ..."""
    class C(_Cb):
        cb = cbname

        @property
        def cases(self):
            return [LS.shape_name(s) for s in LS.shapes(cbname)]

        def build(self, E, case):
            b = B(E)
            shape = next(s for s in LS.shapes(cbname) if LS.shape_name(s) == case)
            return (mk_tr(E), [b.child(s) for s in shape]), {}

        def ensures(self, E, case, args, kwargs, out):
            tr, t = args
            ok = out.kind == "return" and isinstance(out.value, container) and len(out.value) == len(t)
            yield "returns-children-in-order", ok and all(a is b for a, b in zip(out.value, t))
            yield "arity-as-declared", ok and len(out.value) == int(KIND[cbname].split(":")[1])
    C.__name__ = "Cb_" + cbname
    C.props = props
    return register(C)


_fixed_arity_cb("rgb", tuple)
_fixed_arity_cb("num_pair", tuple)
_fixed_arity_cb("extent", list)
_fixed_arity_cb("colorrange", list)
_fixed_arity_cb("hexcolorrange", list)
_fixed_arity_cb("attr_bind_pair", list)
_fixed_arity_cb("attr_mixed_pair", list)
_fixed_arity_cb("string_pair", list)
_fixed_arity_cb("composite_type", list)


@register
class Cb_composite_body(Contract):
    """composite_body hands its children on untouched (the list object itself, any length, any child kinds): composite()
    receives exactly what Lark collected"""
    target = "mappyfile.transformer.MapfileTransformer.composite_body"
    cases = ["empty", "some"]
    props = ("C02", "C13", "C19")

    def build(self, E, case):
        t = [] if case == "empty" else [Seg("child", 0), Seg("child", 1), Seg("child", 2)]
        E.__dict__["body"] = (t, list(t))
        return (mk_tr(E), t), {}

    def ensures(self, E, case, args, kwargs, out):
        t, snap = E.__dict__["body"]
        yield "the-same-list-untouched", out.kind == "return" and out.value is t and len(t) == len(snap) and all(a is b for a, b in zip(t, snap))


# ---------------------------------------------------------------------------------------------
# expressions (C10)
# ---------------------------------------------------------------------------------------------

SORTS = ("s", "i", "f", "b")


def vstr(v):
    """str(token.value) as the f-strings compute it"""
    return S.to_str(v)


def _expr_children(cbname):
    """distinct (is-token?) patterns of the shapes of an expression callback: operands are tokens in every
    alternative whose slot kind is tok:*; tuples/lists (rgb, extent, ... used as an atom) are the one other class"""
    pats = set()
    for sh in LS.shapes(cbname):
        pats.add(tuple("tok" if kind_of_slot(s).startswith("tok:") else ("str" if kind_of_slot(s) == "str" else "seq") for s in sh))
    return sorted(pats)


def _level_of_child(cbname, idx, slot):
    """lower bound on the tightness of child idx guaranteed by the grammar position (the rule it derives from)"""
    return None


class _ExprCb(_Cb):
    props = ("C10", "C04")
    arity = 2
    op = None
    tight_out = None
    need = ()       # required tightness of each operand (grammar level of the child's position)

    @property
    def cases(self):
        import itertools
        out = []
        for pat in _expr_children(self.cb):
            if all(p == "tok" for p in pat):
                for sorts in itertools.product(SORTS, repeat=len(pat)):
                    if TIER != "thorough" and len(pat) > 1 and len(set(sorts)) > 2:
                        continue
                    out.append("tok:" + "".join(sorts))
            else:
                out.append("nontoken:" + ",".join(pat))
        return out

    def build(self, E, case):
        b = B(E)
        if case.startswith("tok:"):
            t = [b.tok(s, "R") for s in case[4:]]
        else:
            t = []
            for p in case.split(":")[1].split(","):
                t.append(b.tok("s") if p == "tok" else (E.str(b.name("s")) if p == "str" else (b.tok("i"), b.tok("i"))))
        for x in t:
            if isinstance(x, TokenM) or hasattr(x, "type"):
                tg = E.int(b.name("tight"))
                E.assume(S.and_(tg >= 0, tg <= TIGHT["ATOM"]))
                if isinstance(x, TokenM):
                    x.ghost["tight"] = tg
        return (mk_tr(E), t), {}

    def olds(self, E, t):
        return [E.ctx.symbols[f"t{i + 1}.value"] if E.symbolic else None for i in range(len(t))]

    def expected(self, E, t, olds):
        raise NotImplementedError

    def ensures(self, E, case, args, kwargs, out):
        tr, t = args
        if case.startswith("nontoken:"):
            # a tuple/list operand (e.g. an RGB triple used as an atom) has no .value: the callback fails and
            # Lark reports a VisitError (C11 allows it); nothing else may happen
            yield "fails-cleanly", out.raised(AttributeError, TypeError, ValueError) or out.kind == "return"
            return
        ok = same_token(out, t[0])
        yield "returns-first-token", ok
        if ok and E.symbolic:
            yield "value", S.eq(t[0].value, self.expected(E, t, self.olds(E, t)))
            yield "position-unchanged", pos_unchanged(E, t[0], "t1")


def _binop(cbname, opstr):
    class C(_ExprCb):
        cb = cbname

        def expected(self, E, t, olds):
            return S.concat(vstr(olds[0]), " ", opstr, " ", vstr(olds[1]))
    C.__name__ = "Cb_" + cbname
    return register(C)


_binop("add", "+")
_binop("sub", "-")
_binop("mul", "*")
_binop("div", "/")
_binop("power", "^")


@register
class Cb_and_test(_ExprCb):
    cb = "and_test"

    def expected(self, E, t, olds):
        return S.concat("( ", vstr(olds[0]), " AND ", vstr(olds[1]), " )")


@register
class Cb_or_test(_ExprCb):
    cb = "or_test"

    def expected(self, E, t, olds):
        return S.concat("( ", vstr(olds[0]), " OR ", vstr(olds[1]), " )")


@register
class Cb_comparison(_ExprCb):
    cb = "comparison"

    def expected(self, E, t, olds):
        return S.concat("( ", vstr(olds[0]), " ", vstr(olds[1]), " ", vstr(olds[2]), " )")


@register
class Cb_neg(_ExprCb):
    cb = "neg"

    def expected(self, E, t, olds):
        return S.concat("-", vstr(olds[0]))


@register
class Cb_not_expression(_ExprCb):
    cb = "not_expression"

    def expected(self, E, t, olds):
        return S.concat("NOT ", vstr(olds[0]))


@register
class Cb_attr_bind(_ExprCb):
    cb = "attr_bind"

    def expected(self, E, t, olds):
        return S.concat("[", vstr(olds[0]), "]")


is_group_uf = z3.Function("is_one_parenthesised_group", z3.StringSort(), z3.BoolSort())


@register
class IsGroup(Contract):
    """is_group(exp): exp is enclosed by ONE matching pair of parentheses (quote-aware).  The scan over the
    characters of a symbolic string is out of reach of the VC generator: at call sites it is the uninterpreted
    predicate is_one_parenthesised_group; the function itself is checked exhaustively on all strings over
    { ( ) " ' a blank backslash } up to a length bound against a reference (bounded, see bounded/seams3.py)."""
    target = "mappyfile.transformer.MapfileTransformer.is_group"
    cases = []
    props = ("C10",)

    def at_call(self, E, tr, exp):
        from contracts.quoter import in_pair
        g = S.Sym(S.BOOL, is_group_uf(S.term(exp)))
        # part of the (bounded-checked) contract: a group starts with "(" and ends with ")" once stripped
        E.assume(S.implies(g, in_pair(exp, "(", ")")))
        return g


@register
class Cb_expression(_ExprCb):
    """(exp): the stored string is exp wrapped in parentheses, or exp itself exactly when exp already is one
    parenthesised group (C10: parentheses never regroup; C04: no parentheses are piled up on re-parsing)"""
    cb = "expression"

    def ensures(self, E, case, args, kwargs, out):
        tr, t = args
        if case.startswith("nontoken:"):
            yield "fails-cleanly", out.raised(AttributeError, TypeError, ValueError) or out.kind == "return"
            return
        ok = same_token(out, t[0])
        yield "returns-first-token", ok
        if ok and E.symbolic:
            old = vstr(self.olds(E, t)[0])
            v = t[0].value
            grp = S.Sym(S.BOOL, is_group_uf(S.term(old)))
            yield "wrapped-or-unchanged", S.or_(S.eq(v, S.concat("(", old, ")")), S.eq(v, old))
            yield "unwrapped-only-if-operand-is-one-group", S.implies(S.not_(S.eq(v, S.concat("(", old, ")"))), grp)
            yield "a-group-is-not-wrapped-again", S.implies(grp, S.eq(v, old))
            yield "position-unchanged", pos_unchanged(E, t[0], "t1")


# ---------------------------------------------------------------------------------------------
# helper functions of the transformer
# ---------------------------------------------------------------------------------------------

def keyword_literal(term_name):
    """the literal of a case-insensitive keyword terminal (None for regex terminals)"""
    t = LS.terminals().get(term_name)
    if t is None:
        return None
    p = t.pattern
    if type(p).__name__ == "PatternStr":
        return p.value
    return None


def assume_terminal_text(E, tok, term_name):
    """A: Lark only produces a token of a keyword terminal for text that matches the literal case-insensitively"""
    lit = keyword_literal(term_name)
    if lit is not None and lit.isascii():
        E.assume(S.eq(S.lower(tok.value), lit.lower()))
        E.assume(S.eq(S.upper(tok.value), lit.upper()))


_orig_child = B.child


def _child(self, slot, sort=None):
    v = _orig_child(self, slot, sort)
    if slot[0] == "T" and isinstance(v, TokenM):
        assume_terminal_text(self.E, v, slot[1])
    if slot == ("R", "composite_type"):
        pass
    return v


B.child = _child


def flat_tokens(values):
    out = []
    for v in values:
        if isinstance(v, (list, tuple)):
            out.extend(v)
        elif isinstance(v, (MDict, dict)):
            out.extend(v["__tokens__"])
        else:
            out.append(v)
    return out


@register
class Flatten(Contract):
    target = "mappyfile.transformer.MapfileTransformer.flatten"
    cases = ["tokens", "mixed", "dict", "bad"]
    props = ("C08",)
    modifies = ()

    def build(self, E, case):
        b = B(E)
        if case == "tokens":
            vals = [b.tok("s"), b.tok("i")]
        elif case == "mixed":
            vals = [b.tok("s"), (b.tok("i"), b.tok("i")), [b.tok("s")]]
        elif case == "dict":
            vals = [E.odict(entries=[("__tokens__", [b.tok("s"), b.tok("s")])]), b.tok("i")]
        else:
            vals = [E.str("notatoken")]
        return (mk_tr(E), vals), {}

    def ensures(self, E, case, args, kwargs, out):
        if case == "bad":
            yield "refused", out.raised(ValueError)
            return
        want = flat_tokens(args[1])
        ok = out.kind == "return" and isinstance(out.value, list) and len(out.value) == len(want)
        yield "flattened-in-order", ok and all(a is b for a, b in zip(out.value, want))


def position_dict_ok(pd, key_token, values):
    """{"line","column"[,"values"]} of the key token and, in source order, of the value tokens"""
    if not isinstance(pd, (MDict, dict)):
        return False
    keys = list(pd.keys())
    want_keys = ["line", "column"] + (["values"] if values else [])
    if keys != want_keys:
        return False
    conds = [S.eq(pd["line"], key_token.line), S.eq(pd["column"], key_token.column)]
    if values:
        flat = flat_tokens(values)
        vp = pd["values"]
        if not isinstance(vp, list) or len(vp) != len(flat):
            return False
        for (l, c), tk in zip(vp, flat):
            conds.append(S.eq(l, tk.line))
            conds.append(S.eq(c, tk.column))
    return S.and_(*conds)


@register
class CreatePositionDict(Contract):
    target = "mappyfile.transformer.MapfileTransformer.create_position_dict"
    cases = ["none", "empty", "tokens", "mixed"]
    props = ("C08",)
    modifies = ()

    def build(self, E, case):
        b = B(E)
        key = b.tok("s")
        if case == "none":
            vals = None
        elif case == "empty":
            vals = []
        elif case == "tokens":
            vals = [b.tok("s"), b.tok("i")]
        else:
            vals = [(b.tok("i"), b.tok("f")), b.tok("s")]
        return (mk_tr(E), key, vals), {}

    def ensures(self, E, case, args, kwargs, out):
        tr, key, vals = args
        yield "position-dict", out.kind == "return" and position_dict_ok(out.value, key, vals)


@register
class GetSingleKey(Contract):
    target = "mappyfile.transformer.MapfileTransformer.get_single_key"
    cases = ["one", "two", "zero"]
    modifies = ()

    def build(self, E, case):
        n = {"one": 1, "two": 2, "zero": 0}[case]
        ks = [E.str(f"k{i}") for i in range(n)]
        if n == 2:
            E.assume(ks[0] != ks[1])
        return (mk_tr(E), E.odict(entries=[(k, i) for i, k in enumerate(ks)])), {}

    def ensures(self, E, case, args, kwargs, out):
        if case == "one":
            yield "the-key", out.kind == "return" and S.eq(out.value, args[1].entries[0][0])
        else:
            yield "asserts", out.raised(AssertionError)


@register
class CheckCompositeTokens(Contract):
    target = "mappyfile.transformer.MapfileTransformer.check_composite_tokens"
    cases = ["empty-block", "two-items", "with-dict"]
    props = ("C02", "C11")
    modifies = ()

    def build(self, E, case):
        b = B(E)
        key = b.tok("s", "KEY")
        end = b.tok("s", "_END")
        E.assume(S.eq(S.lower(key.value), "points"))
        E.assume(S.eq(S.lower(end.value), "end"))
        if case == "empty-block":
            toks = [key, end]
        elif case == "two-items":
            toks = [key, (b.tok("i"), b.tok("i")), (b.tok("f"), b.tok("i")), end]
        else:
            toks = [key, E.odict(entries=[("__tokens__", [b.tok("s"), b.tok("s")])]), end]
        return (mk_tr(E), "points", toks), {}

    def ensures(self, E, case, args, kwargs, out):
        tr, name, toks = args
        ok = out.kind == "return" and isinstance(out.value, tuple) and len(out.value) == 2
        yield "returns-key-and-body", ok
        if ok:
            key, body = out.value
            yield "key", key is toks[0]
            inner = toks[1:-1]
            yield "body-length", len(body) == len(inner)
            if len(body) == len(inner):
                yield "body-items", all((x is y) or (isinstance(y, MDict) and x is y["__tokens__"]) for x, y in zip(body, inner))


# ---------------------------------------------------------------------------------------------
# attr
# ---------------------------------------------------------------------------------------------

def attr_value_spec(E, key_name, value_children):
    """the value stored for a keyword, from the statement: a single token's value (outer quotes removed if it
    is a string), or the list of the values of a multi-part value"""
    vt = value_children
    if len(vt) == 1 and isinstance(vt[0], (list, tuple)):
        vt = list(vt[0])
    if len(vt) > 1:
        return [t.value for t in vt]
    v = vt[0].value
    if S.sort_of(v) == S.STR:
        return remove_quotes_spec(v)
    return v


def keys_eq(d, want):
    ks = d.keys()
    if len(ks) != len(want):
        return False
    return S.and_(*[S.eq(a, b) for a, b in zip(ks, want)])


def values_equal(a, b):
    if isinstance(a, list) and isinstance(b, list):
        return len(a) == len(b) and S.and_(*[values_equal(x, y) for x, y in zip(a, b)])
    if isinstance(a, tuple) and isinstance(b, tuple):
        return len(a) == len(b) and S.and_(*[values_equal(x, y) for x, y in zip(a, b)])
    if isinstance(a, (list, tuple)) or isinstance(b, (list, tuple)):
        return False
    if S.sort_of(a) is None or S.sort_of(b) is None:
        return a is b
    if S.sort_of(a) != S.sort_of(b):
        return False
    return S.eq(a, b)


def _attr_cases():
    out = []
    for sh in LS.shapes("attr"):
        k = kind_of_slot(sh[1])
        sorts = k[4:] if k.startswith("tok:") else "-"
        for s in sorts:
            out.append(LS.shape_name(sh) + "|" + s)
    return out


@register
class Cb_attr(_Cb):
    cb = "attr"
    props = ("C02", "C08", "C13", "C05")

    @property
    def cases(self):
        return _attr_cases()

    def build(self, E, case):
        shname, sort = case.split("|")
        shape = next(s for s in LS.shapes("attr") if LS.shape_name(s) == shname)
        b = B(E)
        key = b.child(shape[0])
        if shape[0] == ("R", "composite_type"):
            # composite_type returns [token]; its text is one of the 19 block keywords
            pass
        val = b.child(shape[1], sort if sort != "-" else None)
        kt = key[0] if isinstance(key, list) else key
        # the keyword is a Mapfile keyword (quantifier of C02: keywords known to the schema), not a hidden
        # __name__ key; and the lexer gives the text "config" the CONFIG terminal, never UNQUOTED_STRING (A: Lark
        # prefers string literals over regular expressions; validated by the bounded seam)
        E.assume(S.not_(S.startswith(S.lower(kt.value), "__")))
        E.assume(S.not_(S.eq(S.lower(kt.value), "config")))
        return (mk_tr(E), [key, val]), {}

    def ensures(self, E, case, args, kwargs, out):
        tr, (key, val) = args
        key_token = key[0] if isinstance(key, list) else key
        kn = S.lower(key_token.value)
        if isinstance(key, list):
            # a block keyword used as a plain keyword: only STYLE and SYMBOL are (QUERYMAP STYLE, STYLE SYMBOL)
            allowed = S.or_(S.eq(kn, "style"), S.eq(kn, "symbol"))
            if out.raised(AssertionError):
                yield "asserts-only-for-other-block-keywords", S.not_(allowed)
                return
            yield "accepted-only-style-symbol", S.implies(out.kind == "return", allowed)
        ok = out.kind == "return" and isinstance(out.value, MDict)
        yield "returns-dict", ok
        if not ok:
            return
        d = out.value
        multi = isinstance(val, (list, tuple)) and len(val) > 1
        value_tokens = list(val) if isinstance(val, (list, tuple)) else [val]
        keys = d.keys()
        yield "keys", len(keys) == 3 and keys[0] == "__position__" and keys[1] == "__tokens__" and S.truthy(S.eq(keys[2], kn)) is not False
        if len(keys) != 3:
            return
        yield "key-is-lower-cased-keyword", S.eq(keys[2], kn)
        yield "position", position_dict_ok(d["__position__"], key_token, value_tokens)
        toks = d["__tokens__"]
        yield "tokens", isinstance(toks, list) and len(toks) == 1 + len(value_tokens) and toks[0] is key_token and all(a is b for a, b in zip(toks[1:], value_tokens))
        yield "value", values_equal(d.entries[2][1], attr_value_spec(E, kn, [val]))


# ---------------------------------------------------------------------------------------------
# CONFIG, PROJECTION, POINTS / PATTERN
# ---------------------------------------------------------------------------------------------

@register
class Cb_config(_Cb):
    cb = "config"
    props = ("C02", "C08")

    @property
    def cases(self):
        return [LS.shape_name(s) for s in LS.shapes("config")]

    def build(self, E, case):
        shape = next(s for s in LS.shapes("config") if LS.shape_name(s) == case)
        b = B(E)
        t = [b.child(s) for s in shape]
        return (mk_tr(E), t), {}

    def ensures(self, E, case, args, kwargs, out):
        tr, t = args
        k0 = E.ctx.symbols["t2.value"] if E.symbolic else None
        v0 = E.ctx.symbols["t3.value"] if E.symbolic else None
        ok = out.kind == "return" and isinstance(out.value, MDict)
        yield "returns-dict", ok
        if not ok or not E.symbolic:
            return
        d = out.value
        keys = d.keys()
        yield "keys", keys_eq(d, ["__position__", "config"])
        if len(keys) != 2:
            return
        yield "position", position_dict_ok(d["__position__"], t[0], [t[1], t[2]])
        cfg = d.entries[1][1]
        good = isinstance(cfg, MDict) and len(cfg.entries) == 1
        yield "one-setting", good
        if good:
            yield "key-lower-cased-unquoted", S.eq(cfg.entries[0][0], remove_quotes_spec(S.lower(k0)))
            yield "value-unquoted", S.eq(cfg.entries[0][1], remove_quotes_spec(v0))


def string_tok_factory(E, tag):
    nm = f"run.{tag}"
    v = E.str(nm + ".value")
    return E.token("R_string", v, v, E.int(nm + ".line"), E.int(nm + ".column"))


def pair_factory(E, tag):
    nm = f"run.{tag}"
    a = E.token("R_int", E.str(nm + ".a.text"), E.int(nm + ".a"), E.int(nm + ".a.line"), E.int(nm + ".a.column"))
    bb = E.token("R_float", E.str(nm + ".b.text"), E.real(nm + ".b"), E.int(nm + ".b.line"), E.int(nm + ".b.column"))
    return (a, bb)


def string_pair_factory(E, tag):
    nm = f"run.{tag}"
    ka = E.str(nm + ".k")
    va = E.str(nm + ".v")
    return [E.token("K", ka, ka, E.int(nm + ".k.line"), E.int(nm + ".k.column")),
            E.token("V", va, va, E.int(nm + ".v.line"), E.int(nm + ".v.column"))]


def _block_tokens(E, kw, factory, case, min_len=0):
    b = B(E)
    key = b.tok("s", kw.upper())
    E.assume(S.eq(S.lower(key.value), kw))
    end = b.tok("s", "_END")
    E.assume(S.eq(S.lower(end.value), "end"))
    if case == "empty":
        return [key, end], key, None
    seq = E.absseq("body", [key], factory, [end], min_len=min_len)
    return seq, key, seq.middle


@register
class CheckCompositeTokensAbs(Contract):
    """call-site contract of check_composite_tokens for a child list with a repetition: (key token, the run);
    the run never contains dicts (grammar: string / num_pair / string_pair items only)"""
    target = None
    lemma = True
    cases = []


def _cct_at_call(self, E, tr, name, tokens):
    from pyvc.absx import AbsSeqList
    from pyvc import models
    I = E.interp
    if isinstance(tokens, AbsSeqList):
        E.require("len(tokens)>=2", len(tokens.head) + len(tokens.tail) >= 2)
        key, end = tokens.head[0], tokens.tail[-1]
        E.require("key-is-" + str(name), S.eq(S.lower(key.value), name))
        E.require("last-is-END", S.eq(S.lower(end.value), "end"))
        if len(tokens.head) != 1 or len(tokens.tail) != 1:
            raise NotImplementedError
        return (key, tokens.middle)
    # concrete list: run the real body
    fn = __import__("mappyfile.transformer", fromlist=["x"]).MapfileTransformer.check_composite_tokens
    saved = I.contracts.pop("mappyfile.transformer.MapfileTransformer.check_composite_tokens")
    try:
        return I.call_function(fn, [tr, name, tokens], {})
    finally:
        I.contracts["mappyfile.transformer.MapfileTransformer.check_composite_tokens"] = saved


CheckCompositeTokens.at_call = _cct_at_call


@register
class Cb_projection(_Cb):
    cb = "projection"
    cases = ["empty", "auto", "strings"]
    props = ("C02", "C08")

    def build(self, E, case):
        if case == "auto":
            b = B(E)
            key = b.tok("s", "PROJECTION")
            E.assume(S.eq(S.lower(key.value), "projection"))
            auto = b.tok("s", "AUTO")
            E.assume(S.eq(S.upper(auto.value), "AUTO"))
            end = b.tok("s", "_END")
            E.assume(S.eq(S.lower(end.value), "end"))
            return (mk_tr(E), [key, auto, end]), {}
        toks, key, run = _block_tokens(E, "projection", string_tok_factory, case, min_len=1)
        return (mk_tr(E), toks), {}

    def ensures(self, E, case, args, kwargs, out):
        from pyvc.absx import AbsMap, AbsSeqList
        tr, toks = args
        ok = out.kind == "return" and isinstance(out.value, MDict)
        yield "returns-dict", ok
        if not ok:
            return
        d = out.value
        yield "keys", keys_eq(d, ["__position__", "__tokens__", "projection"])
        if len(d.keys()) != 3:
            return
        key = toks.head[0] if isinstance(toks, AbsSeqList) else toks[0]
        yield "position-of-keyword", S.and_(S.eq(d["__position__"]["line"], key.line), S.eq(d["__position__"]["column"], key.column))
        v = d.entries[2][1]
        if case == "empty":
            yield "empty-list", isinstance(v, list) and v == []
        elif case == "auto":
            yield "auto", isinstance(v, list) and len(v) == 1 and S.eq(v[0], toks[1].text if isinstance(toks[1], TokenM) else str(toks[1]))
        else:
            good = isinstance(v, AbsMap) and v.source is toks.middle
            yield "one-string-per-token-in-order", good
            if good:
                el = string_tok_factory(E, "probe")
                cond, val = v.apply(el)
                yield "outer-quotes-removed", S.and_(cond, S.eq(val, remove_quotes_spec(el.value)))


def _pairs_cb(cbname):
    class C(_Cb):
        cb = cbname
        cases = ["empty", "pairs"]
        props = ("C02", "C08", "C11", "C19")

        def build(self, E, case):
            toks, key, run = _block_tokens(E, cbname, pair_factory, case, min_len=1)
            return (mk_tr(E), toks), {}

        def ensures(self, E, case, args, kwargs, out):
            from pyvc.absx import AbsMap, AbsSeqList
            tr, toks = args
            ok = out.kind == "return" and isinstance(out.value, MDict)
            yield "returns-dict", ok
            if not ok:
                return
            d = out.value
            yield "keys", keys_eq(d, ["__position__", "__tokens__", cbname])
            if len(d.keys()) != 3:
                return
            key = toks.head[0] if isinstance(toks, AbsSeqList) else toks[0]
            yield "position-of-keyword", S.and_(S.eq(d["__position__"]["line"], key.line), S.eq(d["__position__"]["column"], key.column))
            v = d.entries[2][1]
            if case == "empty":
                yield "empty-list", isinstance(v, list) and v == []
            else:
                good = isinstance(v, AbsMap) and v.source is toks.middle
                yield "one-pair-per-num_pair-in-order", good
                if good:
                    el = pair_factory(E, "probe")
                    cond, val = v.apply(el)
                    yield "pair-of-values", S.and_(cond, isinstance(val, tuple) and len(val) == 2 and S.and_(S.eq(val[0], el[0].value), S.eq(val[1], el[1].value)))
    C.__name__ = "Cb_" + cbname
    return register(C)


_pairs_cb("points")
_pairs_cb("pattern")


# ---------------------------------------------------------------------------------------------
# function calls and list expressions (C10)
# ---------------------------------------------------------------------------------------------

def _sorted_toks(E, sorts):
    b = B(E)
    return [b.tok(s, "R") for s in sorts]


@register
class Cb_func_params(_Cb):
    cb = "func_params"
    cases = ["s", "i", "ss", "sf", "sis", "bfs"]
    props = ("C10",)
    doc = "1..3 parameters (shape-bounded), every value sort"

    def build(self, E, case):
        return (mk_tr(E), _sorted_toks(E, case)), {}

    def ensures(self, E, case, args, kwargs, out):
        tr, t = args
        yield "comma-joined-verbatim-in-order", out.kind == "return" and S.eq(out.value, S.join(",", [vstr(x.value) for x in t]))


@register
class Cb_func_call(_Cb):
    cb = "func_call"
    props = ("C10",)

    def build(self, E, case):
        b = B(E)
        return (mk_tr(E), [b.tok("s", "UNQUOTED_STRING"), E.str("params")]), {}

    def ensures(self, E, case, args, kwargs, out):
        tr, t = args
        ok = same_token(out, t[0])
        yield "returns-name-token", ok
        if ok and E.symbolic:
            name = E.ctx.symbols["t1.value"]
            yield "(name(params))", S.eq(t[0].value, S.concat("(", name, "(", t[1], "))"))


@register
class Cb_list(_Cb):
    cb = "list"
    cases = ["s", "i", "ss", "si", "sfs"]
    props = ("C10",)
    doc = "1..3 elements (shape-bounded); elements are written with their source text"

    def build(self, E, case):
        return (mk_tr(E), _sorted_toks(E, case)), {}

    def ensures(self, E, case, args, kwargs, out):
        tr, t = args
        ok = same_token(out, t[0])
        yield "returns-first-token", ok
        if ok:
            texts = [x.text if isinstance(x, TokenM) else str(x) for x in t]
            yield "{elements-verbatim}", S.eq(t[0].value, S.concat("{", S.join(",", texts), "}"))


@register
class Cb_start(_Cb):
    cb = "start"
    cases = ["one", "two"]
    props = ("C02",)
    modifies = ()

    def build(self, E, case):
        ds = [E.odict(entries=[("__type__", "map")]), E.odict(entries=[("__type__", "layer")])]
        return (mk_tr(E), ds[:1] if case == "one" else ds), {}

    def ensures(self, E, case, args, kwargs, out):
        tr, t = args
        if case == "one":
            yield "single-root-is-the-dict", out.kind == "return" and out.value is t[0]
        else:
            yield "several-roots-are-the-list-in-order", out.kind == "return" and out.value is t


# ---------------------------------------------------------------------------------------------
# METADATA / VALIDATION / VALUES / CONNECTIONOPTIONS
# ---------------------------------------------------------------------------------------------

from pyvc.absx import LoopSpec, AbsColl, AbsSeqList, Seg, add_fact  # noqa: E402


def _abs_acc(E, name, ci=True, factory=None, lazy=None, absent=(), pycls=None):
    from mappyfile.ordereddict import CaseInsensitiveOrderedDict
    d = E.absdict(name, entries=[], pycls=pycls or CaseInsensitiveOrderedDict, ci=ci, factory=factory, absent=absent)
    d.tail["lazy"] = lazy or (lambda E, key: E.fresh(S.STR, "oldval"))
    return d


class ValuePairsLoop(LoopSpec):
    def carried(self, E, L, coll):
        from mappyfile.ordereddict import CaseInsensitiveOrderedDict
        return {"d": _abs_acc(E, "d@iter", factory=CaseInsensitiveOrderedDict, absent=("__position__", "__type__", "__comments__"))}

    def exit_state(self, E, L, coll):
        from mappyfile.ordereddict import CaseInsensitiveOrderedDict
        d = _abs_acc(E, "d@exit", factory=CaseInsensitiveOrderedDict, absent=("__position__", "__type__", "__comments__"))
        d.tail["fold_of"] = coll
        return {"d": d}

    def element(self, E, case, coll):
        return string_pair_factory(E, "pair")

    def step(self, E, pre, post, elem, case):
        d = post["d"]
        K = S.lower(remove_quotes_spec(elem[0].value))
        V = remove_quotes_spec(elem[1].value)
        ok = len(d.entries) == 1
        yield "exactly-this-key-written", ok
        if ok:
            yield "key-unquoted-lower-cased", S.eq(d.entries[0][0], K)
            yield "value-unquoted(last-wins)", S.eq(d.entries[0][1], V)


def _cpd_at_call(self, E, tr, key_token, values):
    """create_position_dict at a call site whose value list is an abstract run"""
    from pyvc import models
    I = E.interp
    if isinstance(values, AbsColl):
        from collections import OrderedDict
        d = MDict(pycls=OrderedDict)
        models.mdict_setitem(I, d, "line", key_token.line, log=False)
        models.mdict_setitem(I, d, "column", key_token.column, log=False)
        if I.ctx.branch(models.py_truth(I, values)):
            models.mdict_setitem(I, d, "values", Seg("positions-of-flatten", values), log=False)
        return d
    fn = __import__("mappyfile.transformer", fromlist=["x"]).MapfileTransformer.create_position_dict
    saved = I.contracts.pop("mappyfile.transformer.MapfileTransformer.create_position_dict")
    try:
        return I.call_function(fn, [tr, key_token, values], {})
    finally:
        I.contracts["mappyfile.transformer.MapfileTransformer.create_position_dict"] = saved


CreatePositionDict.at_call = _cpd_at_call


@register
class ProcessValuePairs(Contract):
    target = "mappyfile.transformer.MapfileTransformer.process_value_pairs"
    cases = ["empty:pos", "empty:nopos", "pairs:pos", "pairs:nopos"]
    props = ("C02", "C08", "C13")
    loops = {1: ValuePairsLoop()}
    loop_cases = {1: ["pairs:pos", "pairs:nopos"]}
    doc = "for METADATA, VALIDATION, VALUES, CONNECTIONOPTIONS (type_ symbolic over the four names)"

    def build(self, E, case):
        shape, pos = case.split(":")
        type_ = E.str("type_")
        E.assume(S.in_const_set(type_, ("metadata", "validation", "values", "connectionoptions")))
        b = B(E)
        key = b.tok("s", "KEY")
        E.assume(S.eq(S.lower(key.value), type_))
        end = b.tok("s", "_END")
        E.assume(S.eq(S.lower(end.value), "end"))
        if shape == "empty":
            toks = [key, end]
        else:
            toks = E.absseq("body", [key], string_pair_factory, [end], min_len=1)
        return (mk_tr(E, pos=(pos == "pos")), toks, type_), {}

    def ensures(self, E, case, args, kwargs, out):
        tr, toks, type_ = args
        shape, pos = case.split(":")
        ok = out.kind == "return" and isinstance(out.value, MDict)
        yield "returns-dict", ok
        if not ok:
            return
        d = out.value
        from mappyfile.ordereddict import CaseInsensitiveOrderedDict
        yield "class", d.pycls is CaseInsensitiveOrderedDict and d.factory is CaseInsensitiveOrderedDict
        key = toks.head[0] if isinstance(toks, AbsSeqList) else toks[0]
        want = (["__position__"] if pos == "pos" else []) + ["__type__"]
        yield "bookkeeping-keys-after-the-pairs", [k for k in d.keys()] == want
        if [k for k in d.keys()] != want:
            return
        yield "type-last-lower-cased", S.eq(d["__type__"], S.lower(key.value))
        if shape == "pairs":
            yield "pairs-folded", d.tail is not None and d.tail.get("fold_of") is toks.middle
        else:
            yield "no-pairs", d.tail is None
        if pos == "pos":
            pd = d["__position__"]
            yield "position-of-opener", isinstance(pd, MDict) and S.and_(S.eq(pd["line"], key.line), S.eq(pd["column"], key.column))


def _value_block_cb(cbname):
    class C(_Cb):
        cb = cbname
        cases = ["delegates"]
        props = ("C02",)

        def build(self, E, case):
            toks, key, run = _block_tokens(E, cbname, string_pair_factory, "pairs", min_len=0)
            return (mk_tr(E), toks), {}

        def ensures(self, E, case, args, kwargs, out):
            yield "process_value_pairs(tokens, type)", out.kind == "return" and isinstance(out.value, Seg) and out.value.key[0] == "process_value_pairs" \
                and out.value.key[1] is args[1] and out.value.key[2] == cbname
    C.__name__ = "Cb_" + cbname
    return register(C)


ProcessValuePairs.at_call = lambda self, E, tr, tokens, type_: Seg("process_value_pairs", tokens, type_)
for _n in ("metadata", "validation", "values", "connectionoptions"):
    _value_block_cb(_n)


# ---------------------------------------------------------------------------------------------
# composite  (the fold of a block's items into its dictionary)
# ---------------------------------------------------------------------------------------------

def _tok_tables():
    from mappyfile.tokens import SINGLETON_COMPOSITE_NAMES, REPEATED_KEYS, OBJECT_LIST_KEYS
    return dict(singleton=sorted(SINGLETON_COMPOSITE_NAMES), repeated=tuple(REPEATED_KEYS), olk=sorted(OBJECT_LIST_KEYS))


def block_type_names():
    names = []
    for sh in LS.shapes("composite_type"):
        lit = keyword_literal(sh[0][1])
        names.append(lit.lower())
    return sorted(set(names) | {"metadata", "validation", "values", "connectionoptions", "symbolset"})


def plural_spec(s):
    return S.concat(s, S.ite(S.endswith(s, "s"), "es", "s"))


calc_depth_ghost = {}


def _lazy_composite_value(E, key):
    """value of an unknown earlier key of the dictionary under construction (arbitrary accumulator state)"""
    t = _tok_tables()
    I = E.interp
    if I.ctx.branch(S.eq(key, "config")):
        return _abs_acc(E, "cfg@old")
    if I.ctx.branch(S.eq(key, "points")):
        depth = E.fresh(S.INT, "olddepth")
        E.assume(S.or_(S.eq(depth, 2), S.eq(depth, 3)))
        return [Seg("old-points", depth)]
    return [Seg("old-items", key)]          # a list for plural / repeated keys; overwritten for simple keys


def _lazy_position_value(E, key):
    I = E.interp
    if I.ctx.branch(S.eq(key, "config")):
        from collections import OrderedDict
        d = E.absdict("cfgpos@old", entries=[], pycls=OrderedDict)
        d.tail["lazy"] = lambda E, k: Seg("old-pos")
        return d
    if I.ctx.branch(S.eq(key, "points")):
        if I.ctx.branch(E.fresh(S.BOOL, "oldpos_is_dict")):
            from collections import OrderedDict
            return MDict(pycls=OrderedDict, entries=[("line", E.fresh(S.INT, "l")), ("column", E.fresh(S.INT, "c"))])
        return [Seg("old-positions", key)]
    return [Seg("old-positions", key)]


def _calculate_depth_model(I, x):
    if isinstance(x, list) and x and isinstance(x[0], Seg):
        if x[0].key[0] == "old-points":
            return x[0].key[1]
        if x[0].key[0] == "pairs":
            return 2
    raise NotImplementedError("calculate_depth on " + repr(x))


def _install_calc_depth():
    from pyvc import models
    import mappyfile.transformer as T
    models.EXTRA_MODELS[T.calculate_depth] = _calculate_depth_model


_install_calc_depth()

COMPOSITE_ELEM_CASES = ["child:singleton", "child:plural", "attr:config", "attr:points", "attr:repeated",
                        "attr:simple", "attr:simple+comments", "attr:repeated+comments"]


class CompositeLoop(LoopSpec):
    elem_cases = COMPOSITE_ELEM_CASES

    def _state(self, E, L, tag):
        from collections import OrderedDict
        from mappyfile.ordereddict import CaseInsensitiveOrderedDict
        tr = L["self"]
        cd = _abs_acc(E, "composite_dict@" + tag, factory=CaseInsensitiveOrderedDict, lazy=_lazy_composite_value)
        cd.entries.append(["__type__", L["composite_dict"]["__type__"]])
        out = {"composite_dict": cd}
        pos_on = tr.include_position
        com_on = tr.include_comments
        if pos_on is True or (S.is_sym(pos_on)):
            pass
        if L.get("position_dict") is not None:
            pd = E.absdict("position_dict@" + tag, entries=[("line", L["position_dict"]["line"]), ("column", L["position_dict"]["column"])], pycls=OrderedDict)
            pd.tail["lazy"] = _lazy_position_value
            cd.entries.append(["__position__", pd])
            out["position_dict"] = pd
        if "comments_dict" in L:
            cm = E.absdict("comments_dict@" + tag, entries=[], pycls=OrderedDict)
            cm.tail["lazy"] = lambda E, k: Seg("old-comments")
            cd.entries.append(["__comments__", cm])
            out["comments_dict"] = cm
        cd.tail["absent"] = ()
        return out

    def carried(self, E, L, coll):
        return self._state(E, L, "iter")

    def exit_state(self, E, L, coll):
        st = self._state(E, L, "exit")
        st["composite_dict"].tail["fold_of"] = coll
        return st

    def element(self, E, case, coll):
        from collections import OrderedDict
        t = _tok_tables()
        kind = case.split("+")[0]
        with_comments = case.endswith("+comments")
        if kind.startswith("child:"):
            k = E.str("child.type")
            sing = S.in_const_set(k, t["singleton"])
            E.assume(sing if kind == "child:singleton" else S.not_(sing))
            E.assume(S.eq(S.lower(k), k))
            # __type__ of a child block: the lower-cased text of one of the grammar's block keywords
            # (postcondition of composite / process_value_pairs: closed under the rule graph)
            E.assume(S.in_const_set(k, block_type_names()))
            from mappyfile.ordereddict import CaseInsensitiveOrderedDict
            d = E.absdict("child", entries=[("__type__", k)], pycls=CaseInsensitiveOrderedDict, ci=True, factory=CaseInsensitiveOrderedDict)
            d.tail["lazy"] = lambda E, key: E.fresh(S.STR, "childval")
            return d
        pos = MDict(pycls=OrderedDict, entries=[("line", E.int("el.line")), ("column", E.int("el.column"))])
        entries = [("__position__", pos)]
        if kind == "attr:config":
            sub = E.str("cfg.key")
            E.assume(S.eq(S.lower(sub), sub))
            cfg = MDict(pycls=dict, entries=[(sub, E.str("cfg.val"))])
            entries.append(("config", cfg))
        else:
            entries.append(("__tokens__", [Seg("tokens")]))
            if kind == "attr:points":
                entries.append(("points", [Seg("pairs", "new")]))
            else:
                key = E.str("el.key")
                E.assume(S.eq(S.lower(key), key))
                E.assume(S.not_(S.startswith(key, "__")))
                E.assume(S.and_(key != "config", key != "points"))
                # keywords known to the schema: none is called line / column (the fields of a position record)
                E.assume(S.and_(key != "line", key != "column"))
                rep = S.in_const_set(key, t["repeated"])
                E.assume(rep if kind == "attr:repeated" else S.not_(rep))
                entries.append((key, E.str("el.value")))
        if with_comments:
            entries.append(("__comments__", E.abslist("el.comments", length=E.int("ncomments"))))
            E.assume(entries[-1][1].info["length"] >= 0)
        return MDict(pycls=OrderedDict, entries=entries)

    # ---- helpers for the step obligations -------------------------------------------------------------
    @staticmethod
    def _changes(pre_entries, d):
        """(unchanged?, new/changed entries) comparing explicit entries by position"""
        same = True
        for i, (k, v) in enumerate(pre_entries):
            if i >= len(d.entries):
                return False, []
            k2, v2 = d.entries[i]
            if not (k2 is k or (S.sort_of(k) is not None and S.truthy(S.eq(k, k2)) is True)) or v2 is not v:
                same = False
        return same, d.entries[len(pre_entries):]

    def step(self, E, pre, post, elem, case):
        t = _tok_tables()
        tr = post["self"]
        cd = post["composite_dict"]
        snap = pre["$entries"]
        kind = case.split("+")[0]
        pd = post.get("position_dict")
        cm = post.get("comments_dict")
        cd_pre = snap[id(cd)]
        same_cd, new_cd = self._changes(cd_pre, cd)
        yield "earlier-keys-untouched", same_cd
        if pd is not None:
            same_pd, new_pd = self._changes(snap[id(pd)], pd)
            yield "earlier-positions-untouched", same_pd
        else:
            new_pd = []
        if cm is not None:
            same_cm, new_cm = self._changes(snap[id(cm)], cm)
            yield "earlier-comments-untouched", same_cm
        else:
            new_cm = []
        yield "exactly-one-key-touched", len(new_cd) == 1
        if len(new_cd) != 1:
            return
        k_new, v_new = new_cd[0]
        if kind.startswith("child:"):
            k = elem["__type__"]
            yield "child-position-not-hoisted", len(new_pd) == 0 and len(new_cm) == 0
            if kind == "child:singleton":
                yield "stored-under-its-type", S.eq(k_new, k)
                yield "as-nested-dict", v_new is elem
            else:
                yield "stored-under-plural-key", S.eq(k_new, plural_spec(k))
                yield "appended-in-source-order", isinstance(v_new, list) and len(v_new) >= 1 and v_new[-1] is elem and \
                    (len(v_new) == 1 or (len(v_new) == 2 and isinstance(v_new[0], Seg) and v_new[0].key[0] == "old-items"))
            return
        pos = elem.entries[0][1] if False else None
        # the element dict has been consumed: its bookkeeping keys were popped
        pos = [v for k, v in (snap.get(id(elem)) or []) if (not S.is_sym(k)) and k == "__position__"]
        pos = pos[0] if pos else None
        if kind == "attr:config":
            yield "config-key", S.eq(k_new, "config")
            sub, val = snap[id(elem)][1][1].entries[0]
            ok = isinstance(v_new, MDict) and v_new.ci and len(v_new.entries) == 1
            yield "settings-dict-is-case-insensitive-and-updated", ok
            if ok:
                yield "setting", S.and_(S.eq(v_new.entries[0][0], sub), S.eq(v_new.entries[0][1], val))
            if pd is not None:
                good = len(new_pd) == 1 and S.truthy(S.eq(new_pd[0][0], "config")) is True and isinstance(new_pd[0][1], MDict) and len(new_pd[0][1].entries) == 1
                yield "config-position-per-setting", good
                if good:
                    yield "setting-position", S.eq(new_pd[0][1].entries[0][0], sub) and new_pd[0][1].entries[0][1] is pos
            return
        if kind == "attr:points":
            yield "points-key", S.eq(k_new, "points")
            new_pairs = [v for k, v in snap[id(elem)] if (not S.is_sym(k)) and k == "points"][0]
            ok = isinstance(v_new, list) and len(v_new) >= 1
            yield "points-list", ok
            if ok:
                if v_new is new_pairs:
                    yield "first-POINTS-stored-as-pair-list", True
                else:
                    yield "repeated-POINTS-one-level-deeper", v_new[-1] is new_pairs and (
                        (len(v_new) == 2 and isinstance(v_new[0], list) and len(v_new[0]) == 1 and isinstance(v_new[0][0], Seg) and S.truthy(S.eq(v_new[0][0].key[1], 2)) is not False)
                        or (len(v_new) == 2 and isinstance(v_new[0], Seg)))
            if pd is not None:
                good = len(new_pd) == 1 and S.truthy(S.eq(new_pd[0][0], "points")) is True
                yield "points-position", good
                if good:
                    pv = new_pd[0][1]
                    yield "points-position-value", pv is pos or (isinstance(pv, list) and pv[-1] is pos)
            return
        key, value = [(k, v) for k, v in snap[id(elem)] if S.is_sym(k)][0]
        yield "key", S.eq(k_new, key)
        if kind == "attr:repeated":
            yield "value-appended-in-source-order", isinstance(v_new, list) and len(v_new) >= 1 and v_new[-1] is value and \
                (len(v_new) == 1 or (len(v_new) == 2 and isinstance(v_new[0], Seg)))
            if pd is not None:
                good = len(new_pd) == 1 and isinstance(new_pd[0][1], list) and len(new_pd[0][1]) >= 1
                yield "position-appended", good and S.eq(new_pd[0][0], key) and new_pd[0][1][-1] is pos
            yield "comments-of-repeated-keywords-not-hoisted", len(new_cm) == 0
        else:
            yield "value-stored(last-wins)", v_new is value
            if pd is not None:
                good = len(new_pd) == 1
                yield "position-hoisted", good and S.eq(new_pd[0][0], key) and new_pd[0][1] is pos
            if cm is not None and case.endswith("+comments"):
                comments = [v for k, v in snap[id(elem)] if (not S.is_sym(k)) and k == "__comments__"][0]
                n = comments.info["length"]
                yield "comments-hoisted-iff-any", S.ite(n > 0, len(new_cm) == 1 and (len(new_cm) == 1 and new_cm[0][1] is comments), len(new_cm) == 0)
                if len(new_cm) == 1:
                    yield "comments-under-the-keyword", S.eq(new_cm[0][0], key)
            elif cm is not None:
                yield "no-comment-invented", len(new_cm) == 0


@register
class Cb_composite(_Cb):
    cb = "composite"
    cases = ["passthrough", "block:nopos:nocom", "block:pos:nocom", "block:nopos:com", "block:pos:com", "block-empty:pos:com"]
    props = ("C02", "C08", "C13", "C14")
    loops = {1: CompositeLoop()}
    loop_cases = {1: ["block:nopos:nocom", "block:pos:nocom", "block:nopos:com", "block:pos:com"]}
    doc = ("the dictionary of a block is the fold, in source order, of its items by the statement's per-item rule "
           "(singleton / plural list / repeated keyword / CONFIG merge / POINTS nesting / last value wins), on top of "
           "{__type__, [__position__], [__comments__]}; proved for one arbitrary item and an arbitrary accumulator")

    def build(self, E, case):
        if case == "passthrough":
            d = E.odict(entries=[("__type__", "metadata")])
            return (mk_tr(E), [d]), {}
        parts = case.split(":")
        b = B(E)
        kt = b.tok("s", "COMPOSITE_TYPE")
        if parts[0] == "block-empty":
            items = []
        else:
            items = E.absseq("items", [], lambda E, tag: None, [], min_len=0)
        tr = mk_tr(E, pos=(parts[1] == "pos"), com=(parts[2] == "com"))
        return (tr, [[kt], items]), {}

    def ensures(self, E, case, args, kwargs, out):
        tr, t = args
        if case == "passthrough":
            yield "already-processed-block-returned", out.kind == "return" and out.value is t[0]
            return
        parts = case.split(":")
        kt = t[0][0]
        ok = out.kind == "return" and isinstance(out.value, MDict)
        yield "returns-dict", ok
        if not ok:
            return
        d = out.value
        from mappyfile.ordereddict import CaseInsensitiveOrderedDict
        yield "class", d.pycls is CaseInsensitiveOrderedDict and d.factory is CaseInsensitiveOrderedDict
        want = ["__type__"] + (["__position__"] if parts[1] == "pos" else []) + (["__comments__"] if parts[2] == "com" else [])
        yield "bookkeeping-keys", d.keys() == want
        if d.keys() != want:
            return
        yield "type-lower-cased", S.eq(d["__type__"], S.lower(kt.value))
        if parts[1] == "pos":
            pd = d["__position__"]
            yield "opener-position", isinstance(pd, MDict) and S.and_(S.eq(pd["line"], kt.line), S.eq(pd["column"], kt.column))
        if parts[0] == "block":
            yield "items-folded", d.tail is not None and d.tail.get("fold_of") is t[1].middle
        else:
            yield "no-items", d.tail is None
