"""Contracts for mappyfile/quoter.py (every method of Quoter)."""
from pyvc import sym as S
from pyvc.api import Contract, register, QUOTES

WS = " \t\n\r\x0b\x0c"


def mk_quoter(E, case):
    """A Quoter for output quote `case` ('dq' | 'sq'), built by the real constructor."""
    from mappyfile.quoter import Quoter
    return Quoter(QUOTES[case])


def in_pair(val, a, b):
    """spec of Quoter.in_brackets & co: strip, then prefix/suffix"""
    v = S.strip(val)
    return S.and_(S.startswith(v, a), S.endswith(v, b))


@register
class Init(Contract):
    target = "mappyfile.quoter.Quoter.__init__"
    cases = ["dq", "sq", "bad"]
    doc = "quote in {',\"} else AssertionError; altquote is the other one"

    def build(self, E, case):
        from mappyfile.quoter import Quoter
        q = E.str("quote")
        if case == "bad":
            E.assume(S.and_(q != '"', q != "'"))
        else:
            E.assume(q == QUOTES[case])
        return (Quoter.__new__(Quoter), q), {}

    def ensures(self, E, case, args, kwargs, out):
        obj, q = args
        if case == "bad":
            yield "raises-AssertionError", out.raised(AssertionError)
            return
        yield "returns", out.kind == "return"
        if out.kind == "return":
            yield "quote-field", obj.quote == q
            yield "altquote-field", obj.altquote == ("'" if case == "dq" else '"')


class _QM(Contract):
    """shared: method of a Quoter on one symbolic string"""
    cases = ["dq", "sq"]
    modifies = ()

    def build(self, E, case):
        return (mk_quoter(E, case), E.str("val")), {}


@register
class AddQuotes(_QM):
    target = "mappyfile.quoter.Quoter.add_quotes"

    def spec(self, q, val):
        return S.concat(q.quote, S.to_str(val), q.quote)

    def ensures(self, E, case, args, kwargs, out):
        yield "result", S.and_(out.kind == "return", out.kind == "return" and out.value == self.spec(*args))

    def at_call(self, E, q, val):
        from pyvc.models import py_str
        return S.concat(q.quote, py_str(E.interp, val), q.quote)


@register
class AddAltQuotes(_QM):
    target = "mappyfile.quoter.Quoter.add_altquotes"

    def ensures(self, E, case, args, kwargs, out):
        q, val = args
        yield "result", out.kind == "return" and out.value == S.concat(q.altquote, val, q.altquote)


@register
class AddQuotes2(Contract):
    target = "mappyfile.quoter.Quoter._add_quotes"
    cases = ["dq"]
    modifies = ()

    def build(self, E, case):
        return (mk_quoter(E, case), E.str("val"), E.str("quote")), {}

    def ensures(self, E, case, args, kwargs, out):
        q, val, quote = args
        yield "result", out.kind == "return" and out.value == S.concat(quote, val, quote)


@register
class InQuotes(_QM):
    target = "mappyfile.quoter.Quoter.in_quotes"

    def ensures(self, E, case, args, kwargs, out):
        q, v = args
        exp = S.or_(S.and_(S.startswith(v, '"'), S.endswith(v, '"')), S.and_(S.startswith(v, "'"), S.endswith(v, "'")))
        yield "result", out.kind == "return" and S.eq(S.truthy(out.value), exp)

    def at_call(self, E, q, v):
        return S.or_(S.and_(S.startswith(v, '"'), S.endswith(v, '"')), S.and_(S.startswith(v, "'"), S.endswith(v, "'")))


@register
class InQuotes2(Contract):
    target = "mappyfile.quoter.Quoter._in_quotes"
    cases = ["dq"]
    modifies = ()

    def build(self, E, case):
        return (mk_quoter(E, case), E.str("val"), E.str("char")), {}

    def ensures(self, E, case, args, kwargs, out):
        q, v, c = args
        yield "result", out.kind == "return" and S.eq(S.truthy(out.value), S.and_(S.startswith(v, c), S.endswith(v, c)))


def escape_spec(quote, val):
    """escape_quotes on a string: if val starts and ends with the quote, un-escape then escape the middle"""
    inq = S.and_(S.startswith(val, quote), S.endswith(val, quote))
    mid0 = remove_quotes_spec(val)
    mid = S.replace_all(S.replace_all(mid0, "\\" + quote, quote), quote, "\\" + quote)
    return S.ite(inq, S.concat(quote, mid, quote), val)


def remove_quotes_spec(val):
    inq = S.or_(S.and_(S.startswith(val, '"'), S.endswith(val, '"')), S.and_(S.startswith(val, "'"), S.endswith(val, "'")))
    return S.ite(inq, val[1:-1], val)


@register
class EscapeQuotes(Contract):
    target = "mappyfile.quoter.Quoter.escape_quotes"
    cases = ["dq:str", "sq:str", "dq:int", "dq:real", "dq:bool"]
    modifies = ()
    doc = "strings per escape_spec; every non-string is returned unchanged"

    def build(self, E, case):
        qc, kind = case.split(":")
        v = {"str": E.str, "int": E.int, "real": E.real, "bool": E.bool}[kind]("val")
        return (mk_quoter(E, qc), v), {}

    def ensures(self, E, case, args, kwargs, out):
        q, v = args
        if case.endswith(":str"):
            yield "result", out.kind == "return" and out.value == escape_spec(q.quote, v)
            # consequence used by C03: a value without the quote character inside is unchanged
        else:
            yield "identity", out.kind == "return" and S.eq(out.value, v)

    def at_call(self, E, q, v):
        if S.sort_of(v) == S.STR:
            return escape_spec(q.quote, v)
        return v


@register
class IsString(Contract):
    target = "mappyfile.quoter.Quoter.is_string"
    cases = ["str", "int", "real", "bool", "none", "list"]
    modifies = ()

    def build(self, E, case):
        v = {"str": lambda: E.str("v"), "int": lambda: E.int("v"), "real": lambda: E.real("v"),
             "bool": lambda: E.bool("v"), "none": lambda: None, "list": lambda: [E.str("v")]}[case]()
        return (mk_quoter(E, "dq"), v), {}

    def ensures(self, E, case, args, kwargs, out):
        yield "result", out.kind == "return" and out.value is (case == "str")


@register
class RemoveQuotes(Contract):
    target = "mappyfile.quoter.Quoter.remove_quotes"
    cases = ["str", "int", "real", "bool", "none", "list2"]
    modifies = ()
    doc = "outer quotes (either kind, matching or not — as coded: starts&ends with the same kind) removed once"

    def build(self, E, case):
        v = {"str": lambda: E.str("v"), "int": lambda: E.int("v"), "real": lambda: E.real("v"),
             "bool": lambda: E.bool("v"), "none": lambda: None,
             "list2": lambda: [E.str("v"), E.int("w")]}[case]()
        return (mk_quoter(E, "dq"), v), {}

    def ensures(self, E, case, args, kwargs, out):
        q, v = args
        if case == "str":
            yield "result", out.kind == "return" and out.value == remove_quotes_spec(v)
        elif case == "list2":
            ok = out.kind == "return" and isinstance(out.value, list) and len(out.value) == 2
            yield "shape", ok
            if ok:
                yield "elem0", out.value[0] == remove_quotes_spec(v[0])
                yield "elem1", S.eq(out.value[1], v[1])
        elif case == "none":
            yield "identity", out.kind == "return" and out.value is None
        else:
            yield "identity", out.kind == "return" and S.eq(out.value, v)

    def at_call(self, E, q, v):
        if S.sort_of(v) == S.STR:
            return remove_quotes_spec(v)
        if isinstance(v, list):
            return [self.at_call(E, q, x) for x in v]
        return v


def _pair_contract(name, a, b):
    class C(_QM):
        target = "mappyfile.quoter.Quoter." + name

        def ensures(self, E, case, args, kwargs, out):
            yield "result", out.kind == "return" and S.eq(S.truthy(out.value), in_pair(args[1], a, b))

        def at_call(self, E, q, v):
            return in_pair(v, a, b)
    C.__name__ = name
    return register(C)


InBrackets = _pair_contract("in_brackets", "[", "]")
InParenthesis = _pair_contract("in_parenthesis", "(", ")")
InBraces = _pair_contract("in_braces", "{", "}")
@register
class InSlashes(_QM):
    """a regular expression /.../ : strip, at least two characters, starts and ends with a slash"""
    target = "mappyfile.quoter.Quoter.in_slashes"

    @staticmethod
    def spec(v):
        w = S.strip(v)
        return S.and_(S.cmp(">", S.length(w), 1), S.startswith(w, "/"), S.endswith(w, "/"))

    def ensures(self, E, case, args, kwargs, out):
        yield "result", out.kind == "return" and S.eq(S.truthy(out.value), self.spec(args[1]))

    def at_call(self, E, q, v):
        return self.spec(v)


@register
class StandardiseQuotes(_QM):
    target = "mappyfile.quoter.Quoter.standardise_quotes"

    def ensures(self, E, case, args, kwargs, out):
        q, v = args
        alt = q.altquote
        in_alt = S.and_(S.startswith(v, alt), S.endswith(v, alt))
        v2 = S.ite(in_alt, S.concat(q.quote, remove_quotes_spec(v), q.quote), v)
        yield "result", out.kind == "return" and out.value == escape_spec(q.quote, v2)


# ---- lemmas over the contracts (no code involved): quoting round trips ---------------------------

@register
class LemmaRoundTrip(Contract):
    """remove_quotes(add_quotes(v)) == v for every v, both quote characters (spec-level lemma)"""
    target = None
    lemma = True
    cases = ["dq", "sq"]

    def build(self, E, case):
        return (E.str("v"),), {}

    def ensures(self, E, case, args, kwargs, out):
        q = QUOTES[case]
        v, = args
        yield "remove(add(v))==v", remove_quotes_spec(S.concat(q, v, q)) == v


@register
class LemmaEscapeNoQuote(Contract):
    """q not in v  ==>  escape_quotes(add_quotes(v)) == add_quotes(v)"""
    target = None
    lemma = True
    cases = ["dq", "sq"]

    def build(self, E, case):
        v = E.str("v")
        E.assume(S.not_(S.contains(v, QUOTES[case])))
        return (v,), {}

    def ensures(self, E, case, args, kwargs, out):
        q = QUOTES[case]
        v, = args
        w = S.concat(q, v, q)
        yield "escape(add(v))==add(v)", escape_spec(q, w) == w
