"""Contracts for mappyfile/dictutils.py (C18, C12).  Lists and dictionaries of fixed small shapes with symbolic
keys and values; nested structures by recursion over the concrete shape."""
from __future__ import annotations
from collections import OrderedDict
from pyvc import sym as S
from pyvc.api import Contract, register
from pyvc.engine import MDict


_E = [None]


def ciod(E, entries, name="d", factory="default"):
    from mappyfile.ordereddict import CaseInsensitiveOrderedDict
    _E[0] = E
    return E.odict(pycls=CaseInsensitiveOrderedDict, ci=True, factory=CaseInsensitiveOrderedDict if factory == "default" else factory, entries=entries)


def plain(entries):
    return _E[0].odict(pycls=dict, entries=entries)


def mk_items(E, shape, key, kind):
    """items of a list for find/findall: 'h' has the key (symbolic value), 'm' lacks it"""
    items = []
    for i, ch in enumerate(shape):
        ents = [("__type__", "layer"), ("name", E.str(f"name{i}"))]
        if ch == "h":
            ents.append((key, E.str(f"val{i}")))
        _E[0] = E
        items.append(ciod(E, ents) if kind == "mapfile" else plain(ents))
    return items


SHAPES = ["", "h", "m", "hh", "hm", "mh", "mhh", "hmh"]


def _snapshot(items):
    return [[(k, v) for k, v in it.entries] if isinstance(it, MDict) else list(it.items()) for it in items]


def _unchanged(items, snap):
    for it, sn in zip(items, snap):
        cur = [(k, v) for k, v in it.entries] if isinstance(it, MDict) else list(it.items())
        if len(cur) != len(sn):
            return False
        for (k1, v1), (k2, v2) in zip(cur, sn):
            if not (k1 is k2 or (isinstance(k1, str) and isinstance(k2, str) and k1 == k2)):
                return False
            if not (v1 is v2 or (type(v1) is type(v2) and S.sort_of(v1) is not None and not S.is_sym(v1) and v1 == v2)):
                return False
    return True


@register
class Find(Contract):
    target = "mappyfile.dictutils.find"
    props = ("C18", "C12")
    modifies = ()
    doc = "first item having the key with a value equal to the one asked for, else None; items lacking the key are skipped and left unchanged"

    @property
    def cases(self):
        return [f"{k}:{s}" for k in ("mapfile", "plain") for s in SHAPES]

    def build(self, E, case):
        kind, shape = case.split(":")
        items = mk_items(E, shape, "group", kind)
        E.__dict__["snap"] = _snapshot(items)
        return (items, "GROUP" if kind == "mapfile" else "group", E.str("wanted")), {}

    def ensures(self, E, case, args, kwargs, out):
        items, key, wanted = args
        kind, shape = case.split(":")
        yield "returns", out.kind == "return"
        if out.kind != "return":
            return
        r = out.value
        # expected: first 'h' item whose value equals wanted
        conds = []
        exp_none = True
        prior = []
        for it, ch in zip(items, shape):
            if ch != "h":
                continue
            eq = S.eq(it["group"], wanted)
            conds.append(S.implies(S.and_(eq, *[S.not_(p) for p in prior]), r is it))
            prior.append(eq)
        conds.append(S.implies(S.and_(*[S.not_(p) for p in prior]), r is None))
        yield "first-match-or-None", S.and_(*conds)
        yield "items-unchanged", _unchanged(items, E.__dict__["snap"])


@register
class FindAll(Contract):
    target = "mappyfile.dictutils.findall"
    props = ("C18", "C12")
    modifies = ()
    doc = "the items, in list order, whose key equals the value (or is one of the values of a list/tuple/set)"

    @property
    def cases(self):
        return [f"{k}:{s}:{v}" for k in ("mapfile", "plain") for s in SHAPES for v in ("single", "list2")]

    def build(self, E, case):
        kind, shape, vk = case.split(":")
        items = mk_items(E, shape, "group", kind)
        E.__dict__["snap"] = _snapshot(items)
        value = E.str("wanted") if vk == "single" else [E.str("w0"), E.str("w1")]
        return (items, "group", value), {}

    def ensures(self, E, case, args, kwargs, out):
        items, key, value = args
        kind, shape, vk = case.split(":")
        ok = out.kind == "return" and isinstance(out.value, list)
        yield "returns-list", ok
        if not ok:
            return
        r = out.value
        hs = [it for it, ch in zip(items, shape) if ch == "h"]
        match = [(S.eq(it["group"], value) if vk == "single" else S.or_(S.eq(it["group"], value[0]), S.eq(it["group"], value[1]))) for it in hs]
        # r must be the subsequence of hs selected by `match`: on every path the engine has decided each match,
        # so r is a concrete list of items; check membership and order
        yield "only-items-with-the-key", all(any(x is h for h in hs) for x in r)
        idx = [next(i for i, h in enumerate(hs) if h is x) for x in r if any(x is h for h in hs)]
        yield "in-list-order-without-repeats", idx == sorted(set(idx))
        yield "exactly-the-matching-items", S.and_(*[S.eq(m, True) if i in idx else S.not_(m) for i, m in enumerate(match)])
        yield "items-unchanged", _unchanged(items, E.__dict__["snap"])


@register
class FindKey(Contract):
    target = "mappyfile.dictutils.findkey"
    cases = ["empty-path", "key", "key-index", "key-index-key", "missing-key", "bad-index"]
    props = ("C18", "C12")
    modifies = ()

    def build(self, E, case):
        leaf = E.str("leaf")
        inner = ciod(E, [("name", leaf)])
        other = ciod(E, [("name", E.str("other"))])
        root = ciod(E, [("layers", [other, inner]), ("title", E.str("title"))], factory=None)
        path = {"empty-path": [], "key": ["title"], "key-index": ["layers", 1], "key-index-key": ["LAYERS", 1, "NAME"],
                "missing-key": ["nokey"], "bad-index": ["layers", 5]}[case]
        return (root,) + tuple(path), {}

    def ensures(self, E, case, args, kwargs, out):
        root = args[0]
        if case == "missing-key":
            yield "KeyError", out.raised(KeyError)
        elif case == "bad-index":
            yield "IndexError", out.raised(IndexError)
        elif case == "empty-path":
            yield "the-dict-itself", out.kind == "return" and out.value is root
        elif case == "key":
            yield "value", out.kind == "return" and S.eq(out.value, root["title"])
        elif case == "key-index":
            yield "list-item", out.kind == "return" and out.value is root["layers"][1]
        else:
            yield "nested-value", out.kind == "return" and S.eq(out.value, root["layers"][1]["name"])


@register
class Update(Contract):
    target = "mappyfile.dictutils.update"
    cases = ["scalar:overwrite", "scalar:keep", "scalar:new-key:keep", "delete-marker", "delete-marker-absent", "nested-merge", "nested-new", "nested-delete",
             "list-merge", "list-none-skips", "list-append", "list-append-nested", "list-delete-item", "list-item-emptied", "list-empty-item-kept", "root-delete", "untouched-keys"]
    props = ("C18",)
    doc = "fixed shapes (one or two keys per level, lists of up to two dicts), symbolic values; both overwrite modes"

    def build(self, E, case):
        _E[0] = E
        a0, b0, n = E.str("a0"), E.str("b0"), E.str("new")
        E.assume(S.and_(n != "__delete__", a0 != "__delete__"))
        ow = True
        if case.startswith("scalar:"):
            d1 = ciod(E, [("a", a0), ("b", b0)])
            if case == "scalar:new-key:keep":
                d2 = plain([("c", n)])
                ow = False
            else:
                d2 = plain([("a", n)])
                ow = case.endswith("overwrite")
        elif case == "delete-marker":
            d1 = ciod(E, [("a", a0), ("b", b0)])
            d2 = plain([("a", "__delete__")])
        elif case == "delete-marker-absent":
            d1 = ciod(E, [("b", b0)])
            d2 = plain([("a", "__delete__")])
        elif case == "nested-merge":
            d1 = ciod(E, [("web", ciod(E, [("x", a0), ("y", b0)])), ("b", b0)])
            d2 = plain([("web", plain([("x", n)]))])
        elif case == "nested-new":
            d1 = ciod(E, [("b", b0)])
            d2 = plain([("web", plain([("x", n)]))])
        elif case == "nested-delete":
            d1 = ciod(E, [("web", ciod(E, [("x", a0)])), ("b", b0)])
            d2 = plain([("web", plain([("__delete__", True)]))])
        elif case == "list-merge":
            d1 = ciod(E, [("layers", [ciod(E, [("x", a0)]), ciod(E, [("x", b0)])])])
            d2 = plain([("layers", [plain([("x", n)]), plain([("y", n)])])])
        elif case == "list-none-skips":
            d1 = ciod(E, [("layers", [ciod(E, [("x", a0)]), ciod(E, [("x", b0)])])])
            d2 = plain([("layers", [None, plain([("x", n)])])])
        elif case == "list-append":
            d1 = ciod(E, [("layers", [ciod(E, [("x", a0)])])])
            E.__dict__["appended"] = plain([("x", n)])
            d2 = plain([("layers", [None, E.__dict__["appended"]])])
        elif case == "list-append-nested":
            # the appended item has an object list of its own with a None placeholder and a __delete__ item
            d1 = ciod(E, [("layers", [ciod(E, [("x", a0)])])])
            E.__dict__["appended"] = plain([("x", n), ("classes", [None, plain([("y", b0)]), plain([("__delete__", True)])])])
            d2 = plain([("layers", [None, E.__dict__["appended"]])])
        elif case == "list-delete-item":
            d1 = ciod(E, [("layers", [ciod(E, [("x", a0)]), ciod(E, [("x", b0)])])])
            d2 = plain([("layers", [plain([("__delete__", True)])])])
        elif case == "list-item-emptied":
            d1 = ciod(E, [("layers", [plain([("x", a0)]), plain([("x", b0)])])])
            d2 = plain([("layers", [plain([("x", "__delete__")])])])
        elif case == "list-empty-item-kept":
            d1 = ciod(E, [("layers", [plain([]), plain([("x", b0)])])])
            d2 = plain([("layers", [None, plain([("x", n)])])])
        elif case == "root-delete":
            d1 = ciod(E, [("a", a0)])
            d2 = plain([("__delete__", True)])
        else:
            d1 = ciod(E, [("a", a0), ("b", b0), ("c", E.str("c0"))])
            d2 = plain([("b", n)])
        E.__dict__["d2snap"] = _snapshot([d2])
        return (d1, d2, ow), {}

    def ensures(self, E, case, args, kwargs, out):
        d1, d2, ow = args
        sym = (lambda n: E.ctx.symbols[n]) if E.symbolic else (lambda n: E.values.get(n, ""))
        a0, b0, n = sym("a0"), sym("b0"), sym("new")
        yield "returns", out.kind == "return"
        if out.kind != "return":
            return
        r = out.value

        def ents(d):
            return [(k, v) for k, v in d.entries] if isinstance(d, MDict) else list(d.items())

        def same(d, want):
            cur = ents(d)
            if len(cur) != len(want):
                return False
            return S.and_(*[S.and_(S.eq(k, wk), (S.eq(v, wv) if S.sort_of(wv) is not None else v is wv)) for (k, v), (wk, wv) in zip(cur, want)])
        if case == "root-delete":
            yield "empty-dict-returned", len(ents(r)) == 0
            return
        yield "returns-d1", r is d1
        if case == "scalar:overwrite":
            yield "replaced", same(d1, [("a", n), ("b", b0)])
        elif case == "scalar:keep":
            yield "kept", same(d1, [("a", a0), ("b", b0)])
        elif case == "scalar:new-key:keep":
            yield "new-key-added", same(d1, [("a", a0), ("b", b0), ("c", n)])
        elif case == "delete-marker":
            yield "key-removed", same(d1, [("b", b0)])
        elif case == "delete-marker-absent":
            yield "nothing-invented", len(ents(d1)) <= 2 and S.truthy(S.eq(ents(d1)[0][1], b0)) is not False
        elif case == "nested-merge":
            yield "merged-recursively", len(ents(d1)) == 2 and same(ents(d1)[0][1], [("x", n), ("y", b0)]) and S.truthy(S.eq(ents(d1)[1][1], b0)) is True
        elif case == "nested-new":
            yield "new-object-added", len(ents(d1)) == 2 and same(ents(d1)[1][1], [("x", n)])
        elif case == "nested-delete":
            yield "object-removed", same(d1, [("b", b0)])
        elif case == "list-merge":
            l = d1["layers"]
            yield "index-by-index", len(l) == 2 and same(l[0], [("x", n)]) and same(l[1], [("x", b0), ("y", n)])
        elif case == "list-none-skips":
            l = d1["layers"]
            yield "None-skips-an-index", len(l) == 2 and same(l[0], [("x", a0)]) and same(l[1], [("x", n)])
        elif case == "list-append":
            l = d1["layers"]
            yield "extra-item-appended", len(l) == 2 and same(l[0], [("x", a0)]) and same(l[1], [("x", n)])
            # the appended object is d1's own: were it the patch's dict, the next update of d1 would write into d2
            yield "appended-item-not-shared-with-the-patch", len(l) == 2 and l[1] is not E.__dict__["appended"]
        elif case == "list-append-nested":
            l = d1["layers"]
            ok = len(l) == 2 and same(l[0], [("x", a0)]) and l[1] is not E.__dict__["appended"] and len(ents(l[1])) == 2
            yield "extra-item-appended-as-d1's-own", ok
            if ok:
                cl = ents(l[1])[1][1]
                yield "appended-item-merged-like-any-other(None skips, __delete__ removes)", S.truthy(S.eq(ents(l[1])[0][1], n)) is True and \
                    isinstance(cl, list) and len(cl) == 2 and same(cl[0], []) and same(cl[1], [("y", b0)])
        elif case == "list-delete-item":
            l = d1["layers"]
            yield "item-removed", len(l) == 1 and same(l[0], [("x", b0)])
        elif case == "list-item-emptied":
            l = d1["layers"]
            yield "an-item-is-removed-only-by-__delete__", len(l) == 2 and same(l[0], []) and same(l[1], [("x", b0)])
        elif case == "list-empty-item-kept":
            l = d1["layers"]
            yield "empty-item-skipped-by-None-stays", len(l) == 2 and same(l[0], []) and same(l[1], [("x", n)])
        else:
            yield "unmentioned-keys-untouched", same(d1, [("a", a0), ("b", n), ("c", sym("c0"))])
        yield "patch-not-modified", _unchanged([d2], E.__dict__["d2snap"])


def _install_zip_longest():
    import itertools
    from pyvc import models
    # zip_longest only pairs elements up (it never inspects them): run it natively
    models.EXTRA_CLASS_MODELS[itertools.zip_longest] = lambda I, cls, *its, **kw: list(itertools.zip_longest(*[list(models.py_iter(I, x)) for x in its], **kw))


_install_zip_longest()
