"""Contracts for mappyfile/ordereddict.py (C17): every method of DefaultOrderedDict / CaseInsensitiveOrderedDict is
interpreted on a model of the *underlying* C-implemented OrderedDict storage and must refine the reference
"ordinary ordered dict keyed by the lower-cased keys" (abstract view = the ordered (key, value) sequence +
default_factory; representation invariant: every str key equals its own lower()).

Assumed dispatch facts of CPython's OrderedDict/dict (B-validated by bounded/c17.py): d[k] on a dict subclass
calls __missing__; OrderedDict.__init__/update/setdefault store through the overridden __setitem__ /
__contains__ / __getitem__; get and pop do not call __missing__ or overridden methods; copy.copy uses __copy__.
"""
from __future__ import annotations
import copy as _copy
import itertools
from collections import OrderedDict
from pyvc import sym as S
from pyvc.api import Contract, register
from pyvc.engine import MDict, PyRaise, OutOfReach, SuperProxy
from pyvc import models, front


def classes():
    from mappyfile.ordereddict import DefaultOrderedDict, CaseInsensitiveOrderedDict
    return DefaultOrderedDict, CaseInsensitiveOrderedDict


# ---------------------------------------------------------------------------------------------
# model of the C-level base class (plain ordered storage) with CPython's dispatch to overridden methods
# ---------------------------------------------------------------------------------------------

def dispatch(I, d, name, *args, **kwargs):
    """call method ``name`` the way CPython does for an instance of d.pycls (overridden Python methods first)"""
    for c in d.pycls.__mro__:
        if name in c.__dict__:
            attr = c.__dict__[name]
            if isinstance(attr, classmethod):
                attr = attr.__func__
                return I.call_function(attr, [d.pycls] + list(args), kwargs)
            if front.is_repo_function(attr):
                return I.call_function(attr, [d] + list(args), kwargs)
            base = BASE.get(name)
            if base is None:
                raise OutOfReach(f"no base model for {c.__name__}.{name}")
            return base(I, d, *args, **kwargs)
    raise PyRaise(AttributeError, (name,), "dispatch")


def b_find(I, d, key):
    if isinstance(key, (list, dict, MDict, set)):
        raise PyRaise(TypeError, ("unhashable type",), "dict")
    for i, (k, _) in enumerate(d.entries):
        if I.ctx.branch(models.py_eq(I, k, key)):
            return i
    return None


def b_getitem(I, d, key):
    i = b_find(I, d, key)
    if i is not None:
        return d.entries[i][1]
    if any("__missing__" in c.__dict__ for c in d.pycls.__mro__):
        return dispatch(I, d, "__missing__", key)     # A: dict subscript protocol
    raise PyRaise(KeyError, (key,), "dict[]")


def b_setitem(I, d, key, value):
    I.ctx.log_write(d, "[]=")
    i = b_find(I, d, key)
    if i is None:
        d.entries.append([key, value])
    else:
        d.entries[i][1] = value


def b_delitem(I, d, key):
    I.ctx.log_write(d, "del")
    i = b_find(I, d, key)
    if i is None:
        raise PyRaise(KeyError, (key,), "del dict[]")
    del d.entries[i]


def b_contains(I, d, key):
    return b_find(I, d, key) is not None


_NO = object()


def b_get(I, d, key, default=None):
    i = b_find(I, d, key)
    return default if i is None else d.entries[i][1]


def b_pop(I, d, key, default=_NO):
    i = b_find(I, d, key)
    if i is None:
        if default is _NO:
            raise PyRaise(KeyError, (key,), "pop")
        return default
    I.ctx.log_write(d, "pop")
    v = d.entries[i][1]
    del d.entries[i]
    return v


def b_setdefault(I, d, key, default=None):
    # A: for a subclass, OrderedDict.setdefault goes through __contains__ / __getitem__ / __setitem__
    if I.ctx.branch(models.py_truth(I, dispatch(I, d, "__contains__", key))):
        return dispatch(I, d, "__getitem__", key)
    dispatch(I, d, "__setitem__", key, default)
    return default


def _pairs_of(I, other):
    if isinstance(other, BaseMDict):
        return [(k, dispatch(I, other, "__getitem__", k)) for k, v in list(other.entries)]
    if isinstance(other, MDict):
        return [(k, v) for k, v in list(other.entries)]
    if isinstance(other, dict):
        return list(other.items())
    return [tuple(models.py_iter(I, p)) for p in models.py_iter(I, other)]


def b_update(I, d, *args, **kwargs):
    # A: MutableMapping.update — every item is stored through the (overridden) __setitem__
    if len(args) > 1:
        raise PyRaise(TypeError, ("update expected at most 1 positional argument",), "update")
    if args:
        for k, v in _pairs_of(I, args[0]):
            dispatch(I, d, "__setitem__", k, v)
    for k, v in kwargs.items():
        dispatch(I, d, "__setitem__", k, v)


def b_init(I, d, *args, **kwargs):
    b_update(I, d, *args, **kwargs)


BASE = {"__getitem__": b_getitem, "__setitem__": b_setitem, "__delitem__": b_delitem, "__contains__": b_contains,
        "get": b_get, "pop": b_pop, "setdefault": b_setdefault, "update": b_update, "__init__": b_init,
        "keys": lambda I, d: models.KeysView(k for k, _ in d.entries),
        "items": lambda I, d: [(k, v) for k, v in d.entries],
        "values": lambda I, d: [v for _, v in d.entries]}


class BaseMDict(MDict):
    """storage-level model: no key folding, no default handling of its own"""


def _install():
    # unbound C-level methods called as OrderedDict.__init__(self, ...) / OrderedDict.__getitem__(self, key)
    for name, fn in BASE.items():
        obj = getattr(OrderedDict, name, None)
        if obj is not None:
            models.EXTRA_MODELS[obj] = (lambda f: lambda I, d, *a, **k: f(I, d, *a, **k))(fn)
    models._BASE_DICT_METHODS.update(BASE)
    # attribute access on a BaseMDict resolves through its class first
    orig_getattr = models.getattr_

    def getattr_(I, obj, name, frame=None):
        if isinstance(obj, BaseMDict):
            if name == "default_factory":
                return obj.factory
            if name == "__class__":
                return obj.pycls
            for c in obj.pycls.__mro__:
                if name in c.__dict__:
                    attr = c.__dict__[name]
                    if isinstance(attr, classmethod):
                        return models.BoundModel(lambda I, o, *a, **k: I.call_function(attr.__func__, [o.pycls] + list(a), k), obj, name)
                    if front.is_repo_function(attr):
                        import types
                        return types.MethodType(attr, obj)
                    if name in BASE:
                        return models.BoundModel(BASE[name], obj, name)
                    break
            raise PyRaise(AttributeError, (name,), "getattr")
        return orig_getattr(I, obj, name, frame)
    models.getattr_ = getattr_
    orig_getitem, orig_setitem, orig_delitem, orig_in = models.getitem, models.setitem, models.delitem, models.py_in

    def getitem(I, obj, key):
        if isinstance(obj, BaseMDict):
            return dispatch(I, obj, "__getitem__", key)
        return orig_getitem(I, obj, key)

    def setitem(I, obj, key, value, log=True):
        if isinstance(obj, BaseMDict):
            return dispatch(I, obj, "__setitem__", key, value)
        return orig_setitem(I, obj, key, value, log=log)

    def delitem(I, obj, key):
        if isinstance(obj, BaseMDict):
            return dispatch(I, obj, "__delitem__", key)
        return orig_delitem(I, obj, key)

    def py_in(I, x, coll):
        if isinstance(coll, BaseMDict):
            return dispatch(I, coll, "__contains__", x)
        return orig_in(I, x, coll)
    models.getitem, models.setitem, models.delitem, models.py_in = getitem, setitem, delitem, py_in
    orig_set_attr = None

    def m_copy(I, x):
        if isinstance(x, BaseMDict):
            return dispatch(I, x, "__copy__")       # A: copy.copy uses __copy__
        if models._contains_symbolic(x):
            raise OutOfReach("copy.copy of a symbolic object")
        return _copy.copy(x)
    models.EXTRA_MODELS[_copy.copy] = m_copy

    def m_deepcopy(I, x, memo=None):
        if isinstance(x, list):
            return [m_deepcopy(I, y) for y in x]
        if isinstance(x, tuple):
            return tuple(m_deepcopy(I, y) for y in x)
        if S.sort_of(x) is not None or x is None:
            return x
        if isinstance(x, MDict):
            return MDict(x.pycls, x.ci, x.factory, [(k, m_deepcopy(I, v)) for k, v in x.entries])
        raise OutOfReach("deepcopy of " + type(x).__name__)
    models.EXTRA_MODELS[_copy.deepcopy] = m_deepcopy
    models.EXTRA_MODELS[iter] = lambda I, x: ("iter", x)
    # setattr self.default_factory = ... on a BaseMDict
    from pyvc import engine
    orig_assign = engine.Interp.assign

    def assign(self, tgt, v, frame):
        import ast
        if isinstance(tgt, ast.Attribute):
            obj = self.eval(tgt.value, frame)
            if isinstance(obj, MDict) and tgt.attr == "default_factory":
                self.ctx.log_write(obj, "setattr .default_factory")
                obj.factory = v
                return
        return orig_assign(self, tgt, v, frame)
    engine.Interp.assign = assign


_install()


# ---------------------------------------------------------------------------------------------
# harness
# ---------------------------------------------------------------------------------------------

def mk_state(E, n, factory=True, cls="ci"):
    DOD, CIOD = classes()
    keys = [E.str(f"k{i}") for i in range(n)]
    vals = [E.str(f"v{i}") for i in range(n)]
    for i in range(n):
        E.assume(S.eq(S.lower(keys[i]), keys[i]))          # representation invariant
        for j in range(i):
            E.assume(keys[i] != keys[j])
    if E.symbolic:
        d = BaseMDict(pycls=CIOD if cls == "ci" else DOD, ci=False, factory=(CIOD if factory else None), entries=list(zip(keys, vals)))
    else:
        d = (CIOD if cls == "ci" else DOD)(CIOD if factory else None)
        for k, v in zip(keys, vals):
            OrderedDict.__setitem__(d, k, v)
    return d, keys, vals


def state_of(d):
    if isinstance(d, MDict):
        return [(k, v) for k, v in d.entries]
    return list(OrderedDict.items(d))


def factory_of(d):
    return d.factory if isinstance(d, MDict) else d.default_factory


class _Default:
    pass


DEFAULT = _Default()


def same_state(d, want):
    cur = state_of(d)
    if len(cur) != len(want):
        return False
    conds = []
    for (k, v), (wk, wv) in zip(cur, want):
        conds.append(S.eq(k, wk))
        if wv is DEFAULT:
            conds.append((isinstance(v, MDict) and len(v.entries) == 0) or (isinstance(v, dict) and len(v) == 0))
        elif S.sort_of(wv) is not None:
            conds.append(S.eq(v, wv))
        elif isinstance(wv, list):
            conds.append(isinstance(v, list) and len(v) == len(wv))
        else:
            conds.append(v is wv)
    return S.and_(*conds)


def wf(d):
    return S.and_(*[S.eq(S.lower(k), k) for k, _ in state_of(d) if S.sort_of(k) == S.STR])


def cases_over(d_keys, q):
    """[(condition, index or None)]: which stored key the query key folds to"""
    lq = S.lower(q)
    out = []
    none_cond = True
    for i, k in enumerate(d_keys):
        out.append((S.eq(lq, k), i))
        none_cond = S.and_(none_cond, S.not_(S.eq(lq, k)))
    out.append((none_cond, None))
    return out


N_STATES = (0, 1, 2)


class _M(Contract):
    props = ("C17",)
    method = None
    cls = "ci"

    @property
    def target(self):
        return f"mappyfile.ordereddict.{'CaseInsensitiveOrderedDict' if self.cls == 'ci' else 'DefaultOrderedDict'}.{self.method}"

    @property
    def cases(self):
        return [f"n={n}" for n in N_STATES]

    def mk(self, E, case, **kw):
        n = int(case.split("=")[1].split(":")[0])
        d, keys, vals = mk_state(E, n, cls=self.cls, **kw)
        E.__dict__["st"] = (d, keys, vals)
        return d, keys, vals


@register
class GetItem(_M):
    method = "__getitem__"

    @property
    def cases(self):
        return [f"n={n}:{f}" for n in N_STATES for f in ("factory", "nofactory")]

    def build(self, E, case):
        d, keys, vals = self.mk(E, case, factory=case.endswith(":factory"))
        return (d, E.str("q")), {}

    def ensures(self, E, case, args, kwargs, out):
        d, q = args
        _, keys, vals = E.__dict__["st"]
        from mappyfile.tokens import OBJECT_LIST_KEYS
        for cond, i in cases_over(keys, q):
            if i is not None:
                yield f"present[{i}]-returns-value-state-unchanged", S.implies(cond, S.and_(out.kind == "return", out.kind == "return" and S.eq(out.value, vals[i]), same_state(d, list(zip(keys, vals)))))
            elif case.endswith(":nofactory"):
                yield "missing-without-factory-KeyError", S.implies(cond, S.and_(out.raised(KeyError), same_state(d, list(zip(keys, vals)))))
            else:
                is_list_key = S.in_const_set(S.lower(q), sorted(OBJECT_LIST_KEYS))
                ok = out.kind == "return"
                yield "missing-with-factory-returns", S.implies(cond, ok)
                if ok:
                    r = out.value
                    yield "default-stored-under-lower-key-at-the-end", S.implies(cond, same_state(d, list(zip(keys, vals)) + [(S.lower(q), [] if isinstance(r, list) else DEFAULT)]))
                    yield "object-list-keys-get-a-list", S.implies(cond, S.eq(is_list_key, isinstance(r, list)))
                    yield "returns-the-stored-object", S.implies(cond, state_of(d)[-1][1] is r if len(state_of(d)) == len(keys) + 1 else False)
        yield "invariant", wf(d)


@register
class GetItemNoneValue(_M):
    """a present key whose value is None is present: it is returned, nothing is stored (both with and without factory)"""
    method = "__getitem__"
    cases = ["factory", "nofactory"]

    @property
    def name(self):
        return self.target + "/none-value"

    def build(self, E, case):
        DOD, CIOD = classes()
        k = E.str("k0")
        E.assume(S.eq(S.lower(k), k))
        fac = CIOD if case == "factory" else None
        if E.symbolic:
            d = BaseMDict(pycls=CIOD, ci=False, factory=fac, entries=[(k, None), ("other", E.str("v1"))])
        else:
            d = CIOD(fac)
            OrderedDict.__setitem__(d, k, None)
            OrderedDict.__setitem__(d, "other", E.str("v1"))
        E.assume(k != "other")
        q = E.str("q")
        E.assume(S.eq(S.lower(q), k))
        return (d, q), {}

    def ensures(self, E, case, args, kwargs, out):
        d, q = args
        yield "returns-the-stored-None", out.kind == "return" and out.value is None
        st = state_of(d)
        yield "state-unchanged", len(st) == 2 and st[0][1] is None


@register
class SetItem(_M):
    method = "__setitem__"

    def build(self, E, case):
        d, keys, vals = self.mk(E, case)
        return (d, E.str("q"), E.str("newv")), {}

    def ensures(self, E, case, args, kwargs, out):
        d, q, nv = args
        _, keys, vals = E.__dict__["st"]
        yield "returns", out.kind == "return"
        for cond, i in cases_over(keys, q):
            if i is not None:
                want = [(k, nv if j == i else v) for j, (k, v) in enumerate(zip(keys, vals))]
                yield f"existing[{i}]-replaced-in-place", S.implies(cond, same_state(d, want))
            else:
                yield "new-key-appended-lower-cased", S.implies(cond, same_state(d, list(zip(keys, vals)) + [(S.lower(q), nv)]))
        yield "invariant", wf(d)


@register
class DelItem(_M):
    method = "__delitem__"

    def build(self, E, case):
        d, keys, vals = self.mk(E, case)
        return (d, E.str("q")), {}

    def ensures(self, E, case, args, kwargs, out):
        d, q = args
        _, keys, vals = E.__dict__["st"]
        for cond, i in cases_over(keys, q):
            if i is not None:
                want = [(k, v) for j, (k, v) in enumerate(zip(keys, vals)) if j != i]
                yield f"deleted[{i}]-others-in-order", S.implies(cond, S.and_(out.kind == "return", same_state(d, want)))
            else:
                yield "missing-KeyError-state-unchanged", S.implies(cond, S.and_(out.raised(KeyError), same_state(d, list(zip(keys, vals)))))
        yield "invariant", wf(d)


def _query_contract(name, call_extra=()):
    class C(_M):
        method = name

        def build(self, E, case):
            d, keys, vals = self.mk(E, case)
            return (d, E.str("q")), {}

        def ensures(self, E, case, args, kwargs, out):
            d, q = args
            _, keys, vals = E.__dict__["st"]
            present = S.or_(*[S.eq(S.lower(q), k) for k in keys]) if keys else False
            yield "membership-by-lower-cased-key", out.kind == "return" and S.eq(S.truthy(out.value), present)
            yield "state-unchanged", same_state(d, list(zip(keys, vals)))
    C.__name__ = "Q_" + name
    return register(C)


_query_contract("__contains__")
_query_contract("has_key")


@register
class Get(_M):
    method = "get"

    @property
    def cases(self):
        return [f"n={n}:{a}" for n in N_STATES for a in ("nodefault", "default")]

    def build(self, E, case):
        d, keys, vals = self.mk(E, case)
        args = (d, E.str("q")) + ((E.str("dflt"),) if case.endswith(":default") else ())
        return args, {}

    def ensures(self, E, case, args, kwargs, out):
        d, q = args[:2]
        _, keys, vals = E.__dict__["st"]
        for cond, i in cases_over(keys, q):
            if i is not None:
                yield f"present[{i}]", S.implies(cond, out.kind == "return" and S.eq(out.value, vals[i]))
            elif case.endswith(":default"):
                yield "missing-gives-default", S.implies(cond, out.kind == "return" and S.eq(out.value, args[2]))
            else:
                yield "missing-gives-None", S.implies(cond, out.kind == "return" and out.value is None)
        yield "never-stores-a-default", same_state(d, list(zip(keys, vals)))


@register
class Pop(_M):
    method = "pop"

    @property
    def cases(self):
        return [f"n={n}:{a}" for n in N_STATES for a in ("nodefault", "default")]

    def build(self, E, case):
        d, keys, vals = self.mk(E, case)
        args = (d, E.str("q")) + ((E.str("dflt"),) if case.endswith(":default") else ())
        return args, {}

    def ensures(self, E, case, args, kwargs, out):
        d, q = args[:2]
        _, keys, vals = E.__dict__["st"]
        for cond, i in cases_over(keys, q):
            if i is not None:
                want = [(k, v) for j, (k, v) in enumerate(zip(keys, vals)) if j != i]
                yield f"present[{i}]-removed-and-returned", S.implies(cond, S.and_(out.kind == "return" and S.eq(out.value, vals[i]), same_state(d, want)))
            elif case.endswith(":default"):
                yield "missing-gives-default", S.implies(cond, S.and_(out.kind == "return" and S.eq(out.value, args[2]), same_state(d, list(zip(keys, vals)))))
            else:
                yield "missing-KeyError", S.implies(cond, S.and_(out.raised(KeyError), same_state(d, list(zip(keys, vals)))))


@register
class SetDefault(_M):
    method = "setdefault"

    @property
    def cases(self):
        return [f"n={n}:{a}" for n in N_STATES for a in ("nodefault", "default")]

    def build(self, E, case):
        d, keys, vals = self.mk(E, case)
        args = (d, E.str("q")) + ((E.str("dflt"),) if case.endswith(":default") else ())
        return args, {}

    def ensures(self, E, case, args, kwargs, out):
        d, q = args[:2]
        dflt = args[2] if len(args) > 2 else None
        _, keys, vals = E.__dict__["st"]
        for cond, i in cases_over(keys, q):
            if i is not None:
                yield f"present[{i}]-returned-unchanged", S.implies(cond, S.and_(out.kind == "return" and S.eq(out.value, vals[i]), same_state(d, list(zip(keys, vals)))))
            else:
                ok = out.kind == "return"
                yield "missing-stores-default-under-lower-key", S.implies(cond, S.and_(ok, ok and (S.eq(out.value, dflt) if dflt is not None else out.value is None),
                                                                                     same_state(d, list(zip(keys, vals)) + [(S.lower(q), dflt)]) if dflt is not None else
                                                                                     (len(state_of(d)) == len(keys) + 1 and S.truthy(S.eq(state_of(d)[-1][0], S.lower(q))) is not False and state_of(d)[-1][1] is None)))
        yield "invariant", wf(d)


@register
class Update(_M):
    method = "update"
    cases = ["n=1:dict", "n=2:dict", "n=1:kwargs", "n=1:both", "n=0:none"]

    def build(self, E, case):
        d, keys, vals = self.mk(E, case)
        kind = case.split(":")[1]
        e = None
        kw = {}
        if kind in ("dict", "both"):
            e = E.odict(pycls=dict, entries=[(E.str("ek"), E.str("ev"))])
        if kind in ("kwargs", "both"):
            kw = {"Zed": E.str("kwv")}
        return (d,) + ((e,) if e is not None else ()), kw

    def ensures(self, E, case, args, kwargs, out):
        d = args[0]
        _, keys, vals = E.__dict__["st"]
        yield "returns-None", out.kind == "return" and out.value is None
        ops = []
        if len(args) > 1:
            ent = args[1].entries[0] if isinstance(args[1], MDict) else list(args[1].items())[0]
            ops.append((ent[0], ent[1]))
        for k, v in kwargs.items():
            ops.append((k, v))
        # reference: ordinary ordered dict keyed by lower-cased keys, items applied in order
        def apply(state, q, nv):
            res = []
            lq = S.lower(q)
            for cond_idx in range(len(state) + 1):
                pass
            return None
        # enumerate the fold-position of each op explicitly (<= 2 ops, <= 2+1 keys)
        states = [(True, list(zip(keys, vals)))]
        for q, nv in ops:
            nxt = []
            for cond, st in states:
                lq = S.lower(q)
                none_c = cond
                for i, (k, v) in enumerate(st):
                    hit = S.and_(cond, S.eq(lq, k), *[S.not_(S.eq(lq, st[j][0])) for j in range(i)])
                    nxt.append((hit, [(kk, nv if j == i else vv) for j, (kk, vv) in enumerate(st)]))
                    none_c = S.and_(none_c, S.not_(S.eq(lq, k)))
                nxt.append((none_c, st + [(lq, nv)]))
            states = nxt
        for n_, (cond, st) in enumerate(states):
            yield f"reference-state[{n_}]", S.implies(cond, same_state(d, st))
        yield "invariant", wf(d)


@register
class Init(_M):
    method = "__init__"
    cases = ["factory-only", "pairs", "pairs-dup-case", "kwargs", "bad-factory"]

    def build(self, E, case):
        DOD, CIOD = classes()
        d = BaseMDict(pycls=CIOD, ci=False, factory=None, entries=[]) if E.symbolic else CIOD.__new__(CIOD)
        if case == "factory-only":
            return (d, CIOD), {}
        if case == "pairs":
            return (d, CIOD, [(E.str("a"), E.str("va")), (E.str("b"), E.str("vb"))]), {}
        if case == "pairs-dup-case":
            a = E.str("a")
            b = E.str("b")
            E.assume(S.and_(a != b, S.eq(S.lower(a), S.lower(b))))
            return (d, None, [(a, E.str("va")), (b, E.str("vb"))]), {}
        if case == "kwargs":
            return (d, None), {"Name": E.str("vn")}
        return (d, "notcallable"), {}

    def ensures(self, E, case, args, kwargs, out):
        d = args[0]
        if case == "bad-factory":
            yield "TypeError", out.raised(TypeError)
            return
        yield "returns", out.kind == "return"
        if out.kind != "return":
            return
        yield "factory-stored", factory_of(d) is args[1]
        if case == "factory-only":
            yield "empty", same_state(d, [])
        elif case == "pairs":
            (a, va), (b, vb) = args[2]
            same = S.eq(S.lower(a), S.lower(b))
            yield "keys-folded-first-insertion-order", S.ite(same, same_state(d, [(S.lower(a), vb)]), same_state(d, [(S.lower(a), va), (S.lower(b), vb)]))
        elif case == "pairs-dup-case":
            (a, va), (b, vb) = args[2]
            yield "same-key-in-two-cases-is-one-entry-last-value", same_state(d, [(S.lower(a), vb)])
        else:
            yield "kwargs-folded", same_state(d, [("name", kwargs["Name"])])
        yield "invariant", wf(d)


@register
class Copy(_M):
    method = "copy"
    cases = ["n=0", "n=2"]

    def build(self, E, case):
        d, keys, vals = self.mk(E, case)
        return (d,), {}

    def ensures(self, E, case, args, kwargs, out):
        d = args[0]
        _, keys, vals = E.__dict__["st"]
        DOD, CIOD = classes()
        ok = out.kind == "return" and (isinstance(out.value, MDict) or isinstance(out.value, CIOD))
        yield "returns-a-dict", ok
        if ok:
            r = out.value
            yield "new-object", r is not d
            yield "same-class-and-factory", (r.pycls if isinstance(r, MDict) else type(r)) is CIOD and factory_of(r) is factory_of(d)
            yield "equal-content-in-order", same_state(r, list(zip(keys, vals)))
            yield "original-unchanged", same_state(d, list(zip(keys, vals)))


@register
class DeepCopy(_M):
    method = "__deepcopy__"
    cases = ["nested"]

    def build(self, E, case):
        DOD, CIOD = classes()
        inner = E.odict(pycls=CIOD, ci=True, factory=CIOD, entries=[("name", E.str("nm"))])
        lst = [E.str("x0")]
        if E.symbolic:
            d = BaseMDict(pycls=CIOD, ci=False, factory=CIOD, entries=[("web", inner), ("items", lst), ("title", E.str("t"))])
        else:
            d = CIOD(CIOD)
            d["web"], d["items"], d["title"] = inner, lst, E.str("t")
        return (d, {}), {}

    def ensures(self, E, case, args, kwargs, out):
        d = args[0]
        DOD, CIOD = classes()
        ok = out.kind == "return" and (isinstance(out.value, MDict) or isinstance(out.value, CIOD))
        yield "returns-a-dict", ok
        if ok:
            r = out.value
            st, sd = state_of(r), state_of(d)
            yield "same-keys-in-order", len(st) == 3 and S.and_(*[S.eq(a[0], b[0]) for a, b in zip(st, sd)])
            if len(st) == 3:
                yield "no-mutable-object-shared", st[0][1] is not sd[0][1] and st[1][1] is not sd[1][1] and r is not d
                yield "scalars-equal", S.eq(st[2][1], sd[2][1])
                yield "nested-content-equal", same_state(st[0][1], state_of(sd[0][1])) and len(st[1][1]) == 1 and S.truthy(S.eq(st[1][1][0], sd[1][1][0])) is True
            yield "class-and-factory", (r.pycls if isinstance(r, MDict) else type(r)) is CIOD and factory_of(r) is factory_of(d)


@register
class Reduce(_M):
    method = "__reduce__"
    cls = "dod"
    cases = ["factory", "nofactory"]

    def build(self, E, case):
        d, keys, vals = mk_state(E, 1, factory=(case == "factory"), cls="ci")
        E.__dict__["st"] = (d, keys, vals)
        return (d,), {}

    def ensures(self, E, case, args, kwargs, out):
        d = args[0]
        DOD, CIOD = classes()
        ok = out.kind == "return" and isinstance(out.value, tuple) and len(out.value) == 5
        yield "pickle-5-tuple", ok
        if ok:
            r = out.value
            yield "rebuilds-the-same-class", r[0] is CIOD
            yield "with-the-factory", r[1] == ((CIOD,) if case == "factory" else ())
            yield "no-state-no-list-items", r[2] is None and r[3] is None
            yield "items-re-inserted-through-__setitem__", r[4] is not None
