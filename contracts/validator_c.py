"""Contracts for mappyfile/validator.py."""
from __future__ import annotations
import z3
from collections import OrderedDict
from pyvc import sym as S
from pyvc.api import Contract, register
from pyvc.engine import MDict, TokenM, PyRaise
from pyvc.absx import AbsColl, AbsMap, Seg, LoopSpec, Ghost, add_fact


def mk_validator(E):
    from mappyfile.validator import Validator
    v = Validator()          # the real constructor (two empty caches)
    return v


def mk_schema_node(E, case, name="node"):
    """a schema node with / without version metadata"""
    entries = [("type", "string")]
    lo = hi = None
    if case != "nometa":
        md = []
        if case in ("min", "both"):
            lo = E.real(name + ".min")
            md.append(("minVersion", lo))
        if case in ("max", "both"):
            hi = E.real(name + ".max")
            md.append(("maxVersion", hi))
        entries.append(("metadata", MDict(pycls=dict, entries=md)))
    return MDict(pycls=dict, entries=entries), lo, hi


def valid_spec(version, lo, hi, has_meta=True):
    """minVersion <= version <= maxVersion (defaults 0.0 and 1000.0); no annotation = always valid"""
    if not has_meta:
        return True
    lo = 0.0 if lo is None else lo
    hi = 1000.0 if hi is None else hi
    return S.and_(S.cmp(">=", version, lo), S.cmp("<=", version, hi))


@register
class IsValidForVersion(Contract):
    target = "mappyfile.validator.Validator.is_valid_for_version"
    cases = ["nometa", "emptymeta", "min", "max", "both"]
    props = ("C09",)
    modifies = ()

    def build(self, E, case):
        node, lo, hi = mk_schema_node(E, case)
        return (mk_validator(E), node, E.real("version")), {}

    def ensures(self, E, case, args, kwargs, out):
        v, node, version = args
        lo = E.ctx.symbols.get("node.min") if E.symbolic else E.values.get("node.min")
        hi = E.ctx.symbols.get("node.max") if E.symbolic else E.values.get("node.max")
        want = valid_spec(version, lo, hi, has_meta=(case != "nometa"))
        yield "in-range", out.kind == "return" and S.eq(S.truthy(out.value), want)

    def at_call(self, E, v, d, version):
        if isinstance(d, MDict) and "$valid" in d.__dict__:
            return d.__dict__["$valid"]
        I = E.interp
        saved = I.contracts.pop(self.target)
        try:
            from mappyfile.validator import Validator
            return I.call_function(Validator.is_valid_for_version, [v, d, version], {})
        finally:
            I.contracts[self.target] = saved


def abs_schema_dict(E, name, valid=None):
    """a schema node of unknown content whose validity for the version at hand is the ghost ``valid``"""
    d = E.absdict(name, entries=[], pycls=dict)
    d.tail["lazy"] = lambda E, k: Seg("schema-child", k)
    d.__dict__["$valid"] = valid if valid is not None else E.fresh(S.BOOL, name + ".valid")
    return d


class PruneListLoop(LoopSpec):
    """for props in v: keep non-dicts and the dicts valid for the version (entering the kept dicts)"""
    elem_cases = ["dict", "scalar"]

    def carried(self, E, L, coll):
        return {"valid_list": [Seg("valid_list@pre")]}

    def exit_state(self, E, L, coll):
        return {"valid_list": [Seg("filtered", coll, L["version"])]}

    def element(self, E, case, coll):
        if case == "dict":
            return abs_schema_dict(E, "member")
        return E.str("member")

    def step(self, E, pre, post, elem, case):
        vl = post["valid_list"]
        if case == "scalar":
            yield "non-dict-member-kept", len(vl) == 2 and vl[1] is elem
            return
        valid = elem.__dict__["$valid"]
        pruned = any(n == ("prune-call", id(elem)) for n in E.ctx.notes)
        yield "dict-member-kept-iff-valid", S.ite(valid, len(vl) == 2 and (len(vl) == 2 and vl[1] is elem), len(vl) == 1)
        yield "kept-member-pruned-itself", S.implies(valid, pruned) if not pruned else True


class PrunePropsLoop(LoopSpec):
    elem_cases = ["dict", "list", "scalar"]

    def carried(self, E, L, coll):
        return {}

    def element(self, E, case, coll):
        props = coll.info["owner"]
        k = E.str("key")
        if case == "dict":
            v = abs_schema_dict(E, "child")
        elif case == "list":
            v = E.abslist("alts", length=E.int("nalts"))
        else:
            v = E.str("scalar")
        props.entries.append([k, v])       # the key comes from the snapshot of the keys: it is present
        return k

    def step(self, E, pre, post, elem, case):
        props = post["properties"]
        snap = pre["$entries"][id(props)]
        k, v = snap[-1]
        now = [e for e in props.entries]
        if case == "scalar":
            yield "scalar-untouched", len(now) == len(snap) and now[-1][1] is v
        elif case == "dict":
            valid = v.__dict__["$valid"]
            pruned = any(n == ("prune-call", id(v)) for n in E.ctx.notes)
            yield "invalid-child-deleted-valid-kept", S.ite(valid, len(now) == len(snap) and (len(now) == len(snap) and now[-1][1] is v), len(now) == len(snap) - 1)
            yield "every-dict-child-pruned-recursively", pruned
        else:
            ok = len(now) == len(snap)
            yield "list-child-kept", ok
            if ok:
                nv = now[-1][1]
                yield "list-filtered-by-version", isinstance(nv, list) and len(nv) == 1 and isinstance(nv[0], Seg) and nv[0].key[0] == "filtered" and nv[0].key[1] is v
        yield "other-keys-untouched", all(a[1] is b[1] for a, b in zip(now[:len(snap) - 1], snap[:-1]))


@register
class GetVersionedProperties(Contract):
    target = "mappyfile.validator.Validator.get_versioned_properties"
    props = ("C09",)
    loops = {1: PrunePropsLoop(), 2: PruneListLoop()}
    nested = {2: (1, "list")}
    doc = ("dict children invalid for the version are deleted; every dict child is pruned recursively; in list "
           "children the dict members invalid for the version are removed, the others kept in order and pruned; "
           "everything else untouched; the same dict is returned")

    def build(self, E, case):
        props = E.absdict("properties", entries=[], pycls=dict)
        props.tail["lazy"] = lambda E, k: Seg("other-child", k)
        return (mk_validator(E), props, E.real("version")), {}

    def ensures(self, E, case, args, kwargs, out):
        yield "returns-the-same-dict", out.kind == "return" and out.value is args[1]

    def at_call(self, E, v, properties, version):
        E.ctx.notes.append(("prune-call", id(properties)))
        return properties


def _patch_list_model():
    """list(d.keys()) on an abstract dict is a snapshot that still knows its owner"""
    pass


# ---------------------------------------------------------------------------------------------
# schema cache
# ---------------------------------------------------------------------------------------------

fresh_expansion = z3.Function("jsonref_expansion_id", z3.StringSort(), z3.IntSort())


class SchemaGhost(Ghost):
    """an expanded schema object as returned by jsonref.load (fresh on every load)"""
    counter = 0

    def __init__(self, name):
        SchemaGhost.counter += 1
        self.ident = SchemaGhost.counter
        self.name = name
        self.props = None


def _install_validator_models():
    import jsonref
    import builtins
    from pyvc import models

    def m_jsonref_load(I, f, **kw):
        return SchemaGhost(getattr(f, "content", None))
    models.EXTRA_MODELS[jsonref.load] = m_jsonref_load

    def m_open(I, fn, *a, **k):
        if S.is_sym(fn):
            return models.FileModel(fn)
        return builtins.open(fn, *a, **k)
    models.EXTRA_MODELS[builtins.open] = m_open


_install_validator_models()


@register
class GetSchemaFile(Contract):
    target = "mappyfile.validator.Validator.get_schema_file"
    cases = []

    def at_call(self, E, v, schema_name):
        return S.concat("<schemas>/", schema_name, ".json") if S.is_sym(schema_name) or True else None


@register
class GetSchemasFolder(Contract):
    target = "mappyfile.validator.Validator.get_schemas_folder"
    cases = []

    def at_call(self, E, v):
        return "<schemas>"


@register
class GetSchemaPath(Contract):
    target = "mappyfile.validator.Validator.get_schema_path"
    cases = ["abs", "rel", "win"]
    props = ("C07",)
    modifies = ()

    def build(self, E, case):
        folder = {"abs": "/x/schemas", "rel": "x/schemas", "win": "D:\\x\\schemas"}[case]
        return (mk_validator(E), folder), {}

    def ensures(self, E, case, args, kwargs, out):
        want = {"abs": "file://///x/schemas/", "rel": "file:///x/schemas/", "win": "file:///D:/x/schemas/"}[case]
        yield "file-uri", out.kind == "return" and out.value == want


@register
class GetExpandedSchema(Contract):
    target = "mappyfile.validator.Validator.get_expanded_schema"
    cases = ["noversion:miss", "noversion:hit", "version:miss", "version:hit"]
    props = ("C09", "C12", "C07")
    doc = ("cache key = name (no version) or name ++ str(version); a miss stores a FRESH expansion under exactly that "
           "key and returns it; a hit returns the stored object; no other entry is touched")

    def build(self, E, case):
        vk, hk = case.split(":")
        v = mk_validator(E)
        name = E.str("name")
        version = E.real("version") if vk == "version" else None
        key = name if version is None else S.concat(name, S.to_str(version))
        other = SchemaGhost("other")
        entries = [(E.str("otherkey"), other)]
        E.assume(S.not_(S.eq(entries[0][0], key)))
        if hk == "hit":
            entries.append((key, SchemaGhost("cached")))
        v.expanded_schemas = MDict(pycls=dict, entries=entries)
        return (v, name, version), {}

    def ensures(self, E, case, args, kwargs, out):
        v, name, version = args
        vk, hk = case.split(":")
        key = name if version is None else S.concat(name, S.to_str(version))
        ok = out.kind == "return" and isinstance(out.value, SchemaGhost)
        yield "returns-a-schema", ok
        if not ok:
            return
        ents = v.expanded_schemas.entries
        yield "other-entries-untouched", len(ents) == 2 and ents[0][1].name == "other"
        if len(ents) != 2:
            return
        yield "cached-under-name(+version)", S.eq(ents[1][0], key)
        yield "returns-the-cache-entry", ents[1][1] is out.value
        if hk == "hit":
            yield "hit-returns-stored-object", out.value.name == "cached"
        else:
            yield "miss-loads-a-fresh-expansion", out.value.name not in ("cached", "other")

    def at_call(self, E, v, schema_name, version=None):
        if not S.is_sym(schema_name) and not S.is_sym(version) and isinstance(v.expanded_schemas, dict):
            # concrete request on a real Validator (the printer's schema lookup): the real code runs natively
            return v.get_expanded_schema(schema_name, version)
        g = SchemaGhost(("expanded", schema_name, version))
        g.props = Seg("properties-of", g)
        return g


def _schema_getitem_model():
    """jsn_schema["properties"] on a SchemaGhost"""
    from pyvc import models
    orig_get, orig_set = models.getitem, models.setitem

    def getitem(I, obj, key):
        if isinstance(obj, SchemaGhost):
            if key == "properties":
                if obj.props is None:
                    obj.props = Seg("properties-of", obj)
                return obj.props
            from pyvc.engine import OutOfReach
            raise OutOfReach("schema ghost subscripted with " + repr(key))
        return orig_get(I, obj, key)

    def setitem(I, obj, key, value, log=True):
        if isinstance(obj, SchemaGhost):
            if key == "properties":
                I.ctx.log_write(obj, "schema[properties]=")
                obj.props = value
                return
            from pyvc.engine import OutOfReach
            raise OutOfReach("schema ghost item assignment " + repr(key))
        return orig_set(I, obj, key, value, log=log)
    models.getitem = getitem
    models.setitem = setitem


_schema_getitem_model()


@register
class GetVersionedSchema(Contract):
    target = "mappyfile.validator.Validator.get_versioned_schema"
    cases = ["none", "zero", "version"]
    props = ("C09",)
    doc = "no version (None or 0): the cached unversioned expansion, untouched; else the (name, version) entry with properties pruned"

    def build(self, E, case):
        v = mk_validator(E)
        if case == "none":
            ver = None
        elif case == "zero":
            ver = 0
        else:
            ver = E.real("version")
            E.assume(S.not_(S.eq(ver, 0)))
        return (v, ver, E.str("name")), {}

    def ensures(self, E, case, args, kwargs, out):
        v, ver, name = args
        ok = out.kind == "return" and isinstance(out.value, SchemaGhost)
        yield "returns-schema", ok
        if not ok:
            return
        g = out.value
        yield "expansion-of-(name,version)", g.name[0] == "expanded" and g.name[1] is name and (g.name[2] is ver)
        pruned = isinstance(g.props, Seg) and any(n == ("prune-call", id(g.props)) for n in E.ctx.notes)
        if case == "version":
            yield "properties-pruned-for-version", pruned
        else:
            yield "unversioned-entry-untouched", not pruned and not any(w[1].startswith("schema[") for w in E.ctx.writes)


# ---------------------------------------------------------------------------------------------
# lower-casing
# ---------------------------------------------------------------------------------------------

@register
class ConvertLowercase(Contract):
    target = "mappyfile.validator.Validator.convert_lowercase"
    cases = ["str", "int", "bool", "none", "list2", "dict2", "abslist", "absdict"]
    props = ("C07", "C12")
    modifies = ()
    doc = ("structure-preserving: lists element-wise, dicts to OrderedDict with lower-cased keys in order and converted "
           "values, str lower-cased, everything else unchanged; the argument is not modified; containers by recursion "
           "(own contract)")

    def build(self, E, case):
        if case == "str":
            x = E.str("x")
        elif case == "int":
            x = E.int("x")
        elif case == "bool":
            x = E.bool("x")
        elif case == "none":
            x = None
        elif case == "list2":
            x = [E.str("a"), E.int("b")]
        elif case == "dict2":
            x = MDict(pycls=dict, entries=[(E.str("k0"), E.str("v0")), (E.str("k1"), E.int("v1"))])
            E.assume(S.not_(S.eq(x.entries[0][0], x.entries[1][0])))
            E.assume(S.not_(S.eq(S.lower(x.entries[0][0]), S.lower(x.entries[1][0]))))
        elif case == "abslist":
            x = E.abslist("xs")
        else:
            x = E.absdict("xd", entries=[], pycls=dict)
        return (mk_validator(E), x), {}

    def ensures(self, E, case, args, kwargs, out):
        v, x = args
        ok = out.kind == "return"
        yield "returns", ok
        if not ok:
            return
        r = out.value
        if case == "str":
            yield "lower-cased", S.eq(r, S.lower(x))
        elif case in ("int", "bool"):
            yield "unchanged", S.eq(r, x)
        elif case == "none":
            yield "unchanged", r is None
        elif case == "list2":
            yield "element-wise", isinstance(r, list) and len(r) == 2 and S.and_(S.eq(r[0], S.lower(x[0])), S.eq(r[1], x[1]))
        elif case == "dict2":
            good = isinstance(r, MDict) and r.pycls is OrderedDict and len(r.entries) == 2
            yield "ordered-dict-same-size", good
            if good:
                yield "keys-lower-cased-in-order", S.and_(S.eq(r.entries[0][0], S.lower(x.entries[0][0])), S.eq(r.entries[1][0], S.lower(x.entries[1][0])))
                yield "values-converted", S.and_(S.eq(r.entries[0][1], S.lower(x.entries[0][1])), S.eq(r.entries[1][1], x.entries[1][1]))
        elif case == "abslist":
            good = isinstance(r, AbsMap) and r.source is x
            yield "one-result-per-element-in-order", good
            if good:
                el = E.str("probe")
                cond, val = r.apply(el)
                yield "each-element-converted", S.and_(cond, S.eq(val, S.lower(el)))
        else:
            good = isinstance(r, MDict) and r.pycls is OrderedDict and r.tail is not None and isinstance(r.tail.get("mapped"), AbsMap) \
                and r.tail["mapped"].source is x.tail["items"]
            yield "ordered-dict-of-the-items-in-order", good
            if good:
                k, val = E.str("pk"), E.str("pv")
                cond, kv = r.tail["mapped"].apply((k, val))
                yield "key-lower-cased-value-converted", S.and_(cond, isinstance(kv, tuple) and S.and_(S.eq(kv[0], S.lower(k)), S.eq(kv[1], S.lower(val))))

    def at_call(self, E, v, x):
        so = S.sort_of(x)
        if so == S.STR:
            return S.lower(x)
        if so is not None or x is None:
            return x
        return Seg("convert_lowercase", x)


def _install_odict_from_absmap():
    from pyvc import models
    orig = models.m_dict_ctor

    def m_dict_ctor(I, cls, *args, **kwargs):
        if args and isinstance(args[0], AbsMap):
            d = MDict(pycls=cls)
            d.tail = dict(mapped=args[0], absent=(), facts=[])
            return d
        return orig(I, cls, *args, **kwargs)
    models.m_dict_ctor = m_dict_ctor
    # generator expressions over abstract collections are AbsMaps already (engine._comp)


_install_odict_from_absmap()


# ---------------------------------------------------------------------------------------------
# error path -> message and location (C07, C08)
# ---------------------------------------------------------------------------------------------

class ErrGhost(Ghost):
    def __init__(self, message):
        self.message = message


def _pos(E, name, extra=(), nvalues=0):
    """a position record as create_position_dict builds it: line, column and (for keywords with values) the positions of the
    value tokens - which are NOT where a message about the keyword points"""
    ents = [("line", E.int(name + ".line")), ("column", E.int(name + ".column"))]
    if nvalues:
        ents.append(("values", [(E.int(f"{name}.v{i}.line"), E.int(f"{name}.v{i}.column")) for i in range(nvalues)]))
    return MDict(pycls=OrderedDict, entries=ents + list(extra))


def _obj(E, name, typ, entries=(), pos_extra=(), with_pos=True):
    from mappyfile.ordereddict import CaseInsensitiveOrderedDict
    ents = [("__type__", typ)]
    if with_pos:
        ents.append(("__position__", _pos(E, name, pos_extra)))
    ents.extend(entries)
    return MDict(pycls=CaseInsensitiveOrderedDict, ci=True, factory=CaseInsensitiveOrderedDict, entries=ents)


MESSAGE_CASES = ["root-object", "list-object", "nested-object", "keyword", "keyword-in-list-object", "list-value-item", "list-value-second-item",
                 "nested-list-value-item", "repeated-keyword", "repeated-keyword-as-a-whole", "repeated-keyword-first", "keyword-without-own-position", "no-positions",
                 "object-with-keyword-named-like-its-type"]


@register
class CreateMessage(Contract):
    target = "mappyfile.validator.Validator.create_message"
    cases = MESSAGE_CASES
    props = ("C07", "C08", "C12")
    modifies = ()
    doc = ("shape-bounded error paths (every kind jsonschema produces for Mapfile documents), symbolic keys / positions: "
           "the message names the offending keyword (value errors) or the object's type (object errors) and carries the "
           "line/column of that keyword, resp. of the object's opener; total (never raises); nothing is modified")

    def build(self, E, case):
        v = mk_validator(E)
        k = E.str("k")
        E.assume(S.eq(S.lower(k), k))
        E.assume(S.not_(S.startswith(k, "__")))
        E.assume(S.and_(k != "line", k != "column", k != "values"))
        exp = {}
        if case == "root-object":
            root = _obj(E, "root", "map")
            path = []
            exp = dict(name="map", pos="root")
        elif case == "list-object":
            o0, o1 = _obj(E, "o0", "layer"), _obj(E, "o1", "layer")
            root = _obj(E, "root", "map", [("layers", [o0, o1])])
            path = ["layers", 1]
            exp = dict(name="layer", pos="o1")
        elif case == "nested-object":
            web = _obj(E, "web", "web")
            root = _obj(E, "root", "map", [("web", web)])
            path = ["web"]
            exp = dict(name="web", pos="web")
        elif case == "object-with-keyword-named-like-its-type":
            web = _obj(E, "web", "web", [("web", E.str("val"))], pos_extra=[("web", _pos(E, "kw"))])
            root = _obj(E, "root", "map", [("web", web)])
            path = ["web"]
            exp = dict(name="web", pos="web")
        elif case == "keyword":
            root = _obj(E, "root", "map", [(k, E.str("val"))], pos_extra=[(k, _pos(E, "kw", nvalues=1))])
            path = [k]
            exp = dict(name=k, pos="kw")
        elif case == "keyword-in-list-object":
            o0 = _obj(E, "o0", "layer", [(k, E.str("val"))], pos_extra=[(k, _pos(E, "kw"))])
            root = _obj(E, "root", "map", [("layers", [o0])])
            path = ["layers", 0, k]
            exp = dict(name=k, pos="kw")
        elif case == "list-value-item":
            root = _obj(E, "root", "map", [(k, [E.real("a"), E.int("b")])], pos_extra=[(k, _pos(E, "kw", nvalues=2))])
            path = [k, 0]
            exp = dict(name=k, pos="kw")
        elif case == "list-value-second-item":
            root = _obj(E, "root", "legend", [(k, [E.int("a"), E.int("b")])], pos_extra=[(k, _pos(E, "kw", nvalues=2))])
            path = [k, 1]
            exp = dict(name=k, pos="kw")
        elif case == "nested-list-value-item":
            root = _obj(E, "root", "feature", [(k, [[(E.int("a"), E.int("b"))]])], pos_extra=[(k, _pos(E, "kw", nvalues=2))])
            path = [k, 0, 0]
            exp = dict(name=k, pos="kw")
        elif case == "repeated-keyword":
            root = _obj(E, "root", "layer", [(k, [E.str("p0"), E.int("p1")])], pos_extra=[(k, [_pos(E, "kw0"), _pos(E, "kw1")])])
            path = [k, 1]
            exp = dict(name=k, pos="kw1")
        elif case == "repeated-keyword-as-a-whole":
            # an error about the list itself (e.g. a wrong item count): the first occurrence stands for the keyword
            root = _obj(E, "root", "layer", [(k, [E.str("p0"), E.int("p1")])], pos_extra=[(k, [_pos(E, "kw0"), _pos(E, "kw1")])])
            path = [k]
            exp = dict(name=k, pos="kw0")
        elif case == "repeated-keyword-first":
            root = _obj(E, "root", "layer", [(k, [E.str("p0"), E.int("p1")])], pos_extra=[(k, [_pos(E, "kw0"), _pos(E, "kw1")])])
            path = [k, 0]
            exp = dict(name=k, pos="kw0")
        elif case == "keyword-without-own-position":
            root = _obj(E, "root", "map", [(k, E.str("val"))])
            path = [k]
            exp = dict(name=k, pos="root")
        else:
            root = _obj(E, "root", "map", [(k, E.str("val"))], with_pos=False)
            path = [k]
            exp = dict(name=k, pos=None)
        E.__dict__["exp"] = exp
        return (v, root, path, ErrGhost(E.str("jsonschema.message")), False), {}

    def ensures(self, E, case, args, kwargs, out):
        v, root, path, err, add = args
        exp = E.__dict__["exp"]
        ok = out.kind == "return" and isinstance(out.value, MDict)
        yield "total(returns-a-message)", ok
        if not ok:
            return
        m = out.value
        yield "error-text-passed-on", S.eq(m["error"], err.message)
        yield "names-keyword-or-object", S.eq(m["message"], S.concat("ERROR: Invalid value in ", S.upper(exp["name"])))
        if exp["pos"] is None:
            yield "no-location-without-positions", "line" not in m and "column" not in m
        else:
            sym = (lambda n: E.ctx.symbols[n]) if E.symbolic else (lambda n: E.values.get(n, 0))
            yield "line-of-keyword-or-opener", "line" in m and S.eq(m["line"], sym(exp["pos"] + ".line"))
            yield "column-of-keyword-or-opener", "column" in m and S.eq(m["column"], sym(exp["pos"] + ".column"))


class ErrorsLoop(LoopSpec):
    def carried(self, E, L, coll):
        return {"error_messages": [Seg("messages@pre")]}

    def exit_state(self, E, L, coll):
        return {"error_messages": [Seg("one-message-per-error", coll)]}

    def element(self, E, case, coll):
        g = ErrGhost(E.str("msg"))
        g.absolute_path = E.abslist("path", pytype=list)
        return g

    def step(self, E, pre, post, elem, case):
        ms = post["error_messages"]
        yield "one-message-per-error-in-order", len(ms) == 2 and isinstance(ms[1], Seg) and ms[1].key[0] == "create_message" and ms[1].key[3] is elem


def _cm_at_call(self, E, v, rootdict, path, error, add_comments):
    return Seg("create_message", rootdict, path, error, add_comments)


CreateMessage.at_call = _cm_at_call


@register
class GetErrorMessages(Contract):
    target = "mappyfile.validator.Validator.get_error_messages"
    props = ("C07",)
    loops = {1: ErrorsLoop()}
    modifies = ()

    def build(self, E, case):
        return (mk_validator(E), _obj(E, "root", "map"), E.abslist("errors"), E.bool("add_comments")), {}

    def ensures(self, E, case, args, kwargs, out):
        ok = out.kind == "return" and isinstance(out.value, list)
        yield "one-message-per-error", ok and len(out.value) == 1 and isinstance(out.value[0], Seg) and out.value[0].key[0] == "one-message-per-error" \
            and out.value[0].key[1] is args[2]

    def at_call(self, E, v, d, errors, add_comments):
        return [Seg("messages", d, errors, add_comments)]


@register
class HistoryVersionedSchema(Contract):
    """C09 history clause as a two-call obligation on ONE Validator: whatever was asked before (same version, other
    schema name / same name, other version), the schema returned for (name, version) has its properties pruned for
    that version, and the schema returned for no version is never pruned"""
    target = None
    lemma = True
    props = ("C09", "C12")
    cases = ["same-version-other-name", "other-version-same-name", "version-then-none", "same-call-twice"]

    def build(self, E, case):
        from mappyfile.validator import Validator
        v = mk_validator(E)
        ver = E.real("version")
        E.assume(S.not_(S.eq(ver, 0)))
        n1, n2 = E.str("name1"), E.str("name2")
        E.assume(n1 != n2)
        fn = Validator.get_versioned_schema
        if case == "same-version-other-name":
            calls = [(ver, n1), (ver, n2)]
        elif case == "other-version-same-name":
            v2 = E.real("version2")
            E.assume(S.and_(S.not_(S.eq(v2, 0)), v2 != ver))
            calls = [(ver, n1), (v2, n1)]
        elif case == "version-then-none":
            calls = [(ver, n1), (None, n1)]
        else:
            calls = [(ver, n1), (ver, n1)]
        results = []
        for (vv, nn) in calls:
            results.append(E.call_real(fn, v, vv, nn) if E.symbolic else fn(v, vv, nn))
        E.__dict__["hist"] = (calls, results)
        return (v,), {}

    def ensures(self, E, case, args, kwargs, out):
        calls, results = E.__dict__["hist"]
        if not E.symbolic:
            return
        for i, ((vv, nn), r) in enumerate(zip(calls, results)):
            ok = isinstance(r, SchemaGhost)
            yield f"call{i + 1}-returns-schema", ok
            if not ok:
                continue
            pruned = isinstance(r.props, Seg) and any(n == ("prune-call", id(r.props)) for n in E.ctx.notes)
            if vv is None:
                yield f"call{i + 1}-unversioned-schema-not-pruned", not pruned
            elif not (case == "same-call-twice" and i == 1):
                yield f"call{i + 1}-pruned-for-its-version", pruned
