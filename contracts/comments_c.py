"""Contracts for the comment bookkeeping (C14, C13): Parser._assign_comments, CommentsTransformer.*,
MapfileToDict.transform, Canonize.symbolset."""
from __future__ import annotations
from collections import OrderedDict
from pyvc import sym as S
from pyvc.api import Contract, register
from pyvc.engine import MDict, TokenM, PyRaise, OutOfReach
from pyvc.absx import AbsColl, AbsMap, Seg, LoopSpec, Ghost, AbsSeqList
from pyvc import models
from contracts.parser_c import mk_parser


class MetaGhost(Ghost):
    pass


class TreeGhost(Ghost):
    """a lark.Tree: data, children, meta (A: propagate_positions gives meta.line / meta.end_line)"""

    def __init__(self, data, children, meta=None):
        self.data = data
        self.children = children
        self.meta = meta if meta is not None else MetaGhost()


def _install():
    from lark import Tree
    orig_isinstance = models.m_isinstance

    def m_isinstance(I, v, cls):
        if isinstance(v, TreeGhost):
            if isinstance(cls, tuple):
                return any(m_isinstance(I, v, c) for c in cls)
            return cls is Tree or cls is object
        return orig_isinstance(I, v, cls)
    models.m_isinstance = m_isinstance
    import builtins
    models._BUILTIN_MODELS[builtins.isinstance] = m_isinstance
    orig_sorted = models._BUILTIN_MODELS[builtins.sorted]

    def m_sorted(I, xs, **kw):
        if isinstance(xs, AbsColl):
            c = AbsColl("sorted(" + xs.name + ")", **xs.info)
            c.info["sorted"] = True
            return c
        return orig_sorted(I, xs, **kw)
    models._BUILTIN_MODELS[builtins.sorted] = m_sorted
    # setattr on a MetaGhost (node.meta.comments = ...) is a plain attribute store: the engine handles it


_install()


# ---------------------------------------------------------------------------------------------
# Parser._assign_comments
# ---------------------------------------------------------------------------------------------

ATTACH_KINDS = ("composite", "attr", "projection", "string_pair")


class PendingLoop(LoopSpec):
    """for line_number in line_numbers: pop the pending comments that start on or before the node's line"""
    elem_cases = ["before-or-on", "after"]

    def carried(self, E, L, coll):
        return {"comments": [Seg("comments@pre")]}

    def exit_state(self, E, L, coll):
        E.ctx.notes.append(("pending-scan", L["line"]))
        return {"comments": [Seg("pending<=line-in-line-order", coll, L["line"])]}

    def element(self, E, case, coll):
        ln = E.int("line_number")
        d = coll.info["owner"]
        txt = E.str("comment.text")
        d.entries.append([ln, txt])      # the line number comes from the keys of comments_dict: it is present
        E.__dict__["elem_case"] = case
        return ln

    def step(self, E, pre, post, elem, case):
        d = post["self"].comments_dict
        line = post["line"]
        cm = post["comments"]
        before = S.cmp("<=", elem, line)
        has = any(k is elem for k, _ in d.entries)
        txt = [v for k, v in pre["$entries"][id(d)] if k is elem][0]
        yield "attached-iff-not-after-the-node", S.ite(before, len(cm) == 2 and (len(cm) == 2 and cm[1] is txt) and not has, len(cm) == 1 and has)
        yield "nothing-else-popped", len(d.entries) == len(pre["$entries"][id(d)]) - (0 if has else 1)


class ChildrenLoop(LoopSpec):
    elem_cases = ["token", "tree-no-line", "composite", "attr", "projection", "string_pair", "other-tree"]

    def carried(self, E, L, coll):
        return {}

    def element(self, E, case, coll):
        if case == "token":
            return E.token("X", E.str("tok"))
        meta = MetaGhost()
        if case != "tree-no-line":
            meta.line = E.int("node.line")
            meta.end_line = E.int("node.end_line")
        data = {"other-tree": "value", "tree-no-line": "attr"}.get(case, case)
        return TreeGhost(data, AbsColl("grandchildren", pytype=list), meta)

    def step(self, E, pre, post, elem, case):
        notes = E.ctx.notes
        recursed = any(n == ("assign-call", id(elem)) for n in notes)
        if case in ("token", "tree-no-line"):
            yield "skipped", not recursed and not hasattr(getattr(elem, "meta", None), "comments")
            return
        yield "children-visited-recursively(pre-order)", recursed
        got = getattr(elem.meta, "comments", None)
        scans = [n[1] for n in notes if isinstance(n, tuple) and n and n[0] == "pending-scan"]
        if case in ATTACH_KINDS:
            bound = elem.meta.end_line if case == "projection" else elem.meta.line
            yield "pending-comments-scanned-up-to-its-line(end-line-for-projection)", len(scans) == 1 and S.eq(scans[0], bound)
        else:
            yield "no-scan-for-other-nodes", len(scans) == 0
        if case in ATTACH_KINDS:
            is_pending = isinstance(got, list) and len(got) == 1 and isinstance(got[0], Seg) and got[0].key[0] == "pending<=line-in-line-order"
            ok = got is None or is_pending
            yield "receives-exactly-the-pending-comments", ok
            tested = [b for seg, b in E.ctx.ghost.get("$nonempty", []) if seg.key[0] == "pending<=line-in-line-order"]
            if not tested:
                # no emptiness test on this path: then the (possibly empty) pending list itself must have been attached
                yield "pending-comments-attached", is_pending
            else:
                yield "pending-comments-attached-whenever-there-are-any", len(tested) == 1 and S.ite(tested[0], is_pending, got is None or is_pending)
            if got is not None and ok:
                bound = elem.meta.end_line if case == "projection" else elem.meta.line
                yield "up-to-its-line(end-line-for-projection)", S.eq(got[0].key[2], bound)
        else:
            yield "other-nodes-receive-nothing", got is None


@register
class AssignComments(Contract):
    target = "mappyfile.parser.Parser._assign_comments"
    props = ("C14",)
    loops = {1: ChildrenLoop(), 2: PendingLoop()}
    nested = {2: (1, "attr")}
    doc = ("every visited node of kind composite/attr/projection/string_pair receives exactly the pending comments whose "
           "line is <= its line (end_line for projection), in line order, each popped from comments_dict when attached "
           "(so a comment reaches at most one node); tokens and other nodes receive nothing; recursion in pre-order")

    def build(self, E, case):
        p = mk_parser(E, comments=True)
        cd = E.absdict("comments_dict", entries=[], pycls=dict)
        cd.tail["lazy"] = lambda E, k: E.fresh(S.STR, "comment")
        p.comments_dict = cd
        tree = TreeGhost("start", AbsColl("children", pytype=list))
        return (p, tree), {}

    def ensures(self, E, case, args, kwargs, out):
        yield "returns-None", out.kind == "return" and out.value is None

    def at_call(self, E, p, tree):
        E.ctx.notes.append(("assign-call", id(tree)))
        return None


def _truthy_list_model():
    """`if comments:` on [Seg(...)]: the segment may be empty -> unknown truth value"""
    orig = models.py_truth

    def py_truth(I, v):
        if isinstance(v, list) and len(v) == 1 and isinstance(v[0], Seg) and v[0].key[0] in ("pending<=line-in-line-order", "comments-of-node"):
            b = I.ctx.fresh(S.BOOL, "nonempty")
            I.ctx.ghost.setdefault("$nonempty", []).append((v[0], b))      # which segment's emptiness was tested on this path
            return b
        return orig(I, v)
    models.py_truth = py_truth


_truthy_list_model()


# ---------------------------------------------------------------------------------------------
# CommentsTransformer
# ---------------------------------------------------------------------------------------------

class TodictGhost(Ghost):
    """the main transformer as seen by CommentsTransformer: transform(tree) gives the node's dictionary"""

    def __init__(self, result):
        self.result = result
        from mappyfile.quoter import Quoter
        self.quoter = Quoter()

    def transform(self, I, tree):
        return self.result

    def clean_string(self, I, val):
        from contracts.quoter import remove_quotes_spec
        return remove_quotes_spec(val)


def mk_ct(E, result):
    from mappyfile.transformer import CommentsTransformer
    ct = CommentsTransformer.__new__(CommentsTransformer)
    ct._mapfile_todict = TodictGhost(result)
    return ct


def _meta(E, case):
    m = MetaGhost()
    if case != "nometa":
        n = E.int("ncomments")
        E.assume(n >= (1 if case == "some" else 0))
        if case == "none":
            E.assume(S.eq(n, 0))
        m.comments = E.abslist("meta.comments", length=n, pytype=list)
    return m


@register
class GetComments(Contract):
    target = "mappyfile.transformer.CommentsTransformer.get_comments"
    cases = ["nometa", "some", "none"]
    props = ("C14",)
    modifies = ()

    def build(self, E, case):
        return (mk_ct(E, None), _meta(E, case)), {}

    def ensures(self, E, case, args, kwargs, out):
        ct, meta = args
        ok = out.kind == "return" and isinstance(out.value, list)
        yield "returns-list", ok
        if ok:
            if case == "nometa":
                yield "no-comments", out.value == []
            else:
                yield "the-node's-comments-unchanged", len(out.value) == 1 and isinstance(out.value[0], Seg) and out.value[0].key[0] == "extend" and out.value[0].key[1] is meta.comments

    def at_call(self, E, ct, meta):
        if hasattr(meta, "comments"):
            return [Seg("comments-of-node", meta.comments)]
        return []


def _install_list_iadd():
    """all_comments += meta.comments with an abstract list"""
    from pyvc import engine
    import ast
    orig = engine.Interp.x_AugAssign

    def x_AugAssign(self, st, frame):
        if isinstance(st.op, ast.Add):
            cur = self.eval(engine._load(st.target), frame)
            if isinstance(cur, list):
                rhs = self.eval(st.value, frame)
                if isinstance(rhs, AbsColl):
                    self.ctx.log_write(cur, "list +=")
                    cur.append(Seg("extend", rhs))
                    return
        return orig(self, st, frame)
    engine.Interp.x_AugAssign = x_AugAssign


_install_list_iadd()


def _node_dict(E, kind):
    from mappyfile.ordereddict import CaseInsensitiveOrderedDict
    if kind == "attr":
        key = E.str("key")
        E.assume(S.not_(S.startswith(key, "__")))      # a keyword, not a hidden key (postcondition of attr)
        return E.odict(pycls=OrderedDict, entries=[("__position__", Seg("pos")), ("__tokens__", Seg("toks")), (key, E.str("val"))])
    if kind == "composite":
        # any block type but METADATA (which is the keyvalue case)
        from contracts.transformer_c import block_type_names
        typ = E.str("block.type")
        E.assume(S.in_const_set(typ, [n for n in block_type_names() if n != "metadata"]))
        return E.odict(pycls=CaseInsensitiveOrderedDict, ci=True, factory=CaseInsensitiveOrderedDict,
                       entries=[("__type__", typ), ("__comments__", E.odict(pycls=OrderedDict, entries=[("name", Seg("c"))])), ("name", E.str("n"))])
    if kind in ("keyvalue", "metadata"):
        return E.odict(pycls=CaseInsensitiveOrderedDict, ci=True, factory=CaseInsensitiveOrderedDict,
                       entries=[("a", E.str("va")), ("__type__", "validation" if kind == "keyvalue" else "metadata")])
    raise ValueError(kind)


def _data_unchanged(d, before):
    cur = [(k, v) for k, v in d.entries if not (not S.is_sym(k) and k == "__comments__")]
    bef = [(k, v) for k, v in before if not (not S.is_sym(k) and k == "__comments__")]
    return len(cur) == len(bef) and all((a[0] is b[0] or a[0] == b[0]) and a[1] is b[1] for a, b in zip(cur, bef))


@register
class SaveAttrComments(Contract):
    target = "mappyfile.transformer.CommentsTransformer._save_attr_comments"
    cases = ["some", "none", "nometa"]
    props = ("C14", "C13")

    def build(self, E, case):
        d = _node_dict(E, "attr")
        E.__dict__["before"] = [(k, v) for k, v in d.entries]
        tree = TreeGhost("attr", [], _meta(E, case))
        return (mk_ct(E, d), tree), {}

    def ensures(self, E, case, args, kwargs, out):
        ct, tree = args
        d = ct._mapfile_todict.result
        yield "returns-the-node's-dict", out.kind == "return" and out.value is d
        yield "data-untouched", _data_unchanged(d, E.__dict__["before"])
        yield "only-__comments__-added-last", d.keys()[-1] == "__comments__" and len(d.entries) == len(E.__dict__["before"]) + 1
        c = d["__comments__"]
        if case == "nometa":
            yield "empty-list", c == []
        else:
            yield "the-node's-comments", isinstance(c, list) and len(c) == 1 and isinstance(c[0], Seg) and c[0].key[1] is tree.meta.comments


@register
class SaveCompositeComments(Contract):
    target = "mappyfile.transformer.CommentsTransformer._save_composite_comments"
    cases = ["composite:some", "composite:none", "keyvalue:some", "keyvalue:none", "metadata:some", "metadata:none"]
    props = ("C14", "C13")

    def build(self, E, case):
        kind, mk = case.split(":")
        d = _node_dict(E, kind)
        E.__dict__["before"] = [(k, v) for k, v in d.entries]
        tree = TreeGhost("composite", [TreeGhost("validation", [])], _meta(E, mk))
        return (mk_ct(E, d), tree), {}

    def ensures(self, E, case, args, kwargs, out):
        ct, tree = args
        kind, mk = case.split(":")
        d = ct._mapfile_todict.result
        yield "returns-the-node's-dict", out.kind == "return" and out.value is d
        if out.kind != "return":
            return
        yield "data-untouched", _data_unchanged(d, E.__dict__["before"])
        yield "has-__comments__", "__comments__" in d
        if "__comments__" not in d:
            return
        cd = d["__comments__"]
        tc = cd.get("__type__") if isinstance(cd, MDict) else None
        # `if comments:` — the comments list may be empty: both outcomes are explored
        is_nodes = isinstance(tc, list) and len(tc) == 1 and isinstance(tc[0], Seg) and tc[0].key[1] is tree.meta.comments
        if tc is not None:
            yield "block-comments-are-the-node's", is_nodes
        if mk != "nometa":
            tested = [b for seg, b in E.ctx.ghost.get("$nonempty", []) if seg.key[0] == "comments-of-node"]
            if tested:
                yield "block-comments-stored-under-__type__-whenever-there-are-any", len(tested) == 1 and S.ite(tested[0], is_nodes, tc is None or is_nodes)
            else:
                yield "block-comments-stored-under-__type__", is_nodes
        if kind == "composite":
            yield "hoisted-keyword-comments-kept", cd.get("name") is not None
        calls = [n_ for n_ in E.ctx.notes if isinstance(n_, tuple) and n_ and n_[0] == "metadata-comments-call"]
        if kind == "metadata":
            yield "comments-of-the-pairs-collected", len(calls) == 1 and calls[0][1] is d and calls[0][2] is tree.children[0].children
        else:
            yield "pair-comments-only-for-METADATA", not calls


@register
class AddMetadataComments(Contract):
    """assumed at call sites (its body - a scan of the METADATA string_pair trees - is exercised by the comments seam only):
    it is handed the node's dictionary and the METADATA subtree's children, and returns the dictionary"""
    target = "mappyfile.transformer.CommentsTransformer.add_metadata_comments"
    cases = []
    props = ("C14",)

    def at_call(self, E, ct, d, metadata):
        E.ctx.notes.append(("metadata-comments-call", d, metadata))
        return d


@register
class SaveProjectionComments(Contract):
    target = "mappyfile.transformer.CommentsTransformer._save_projection_comments"
    cases = ["some", "nometa"]
    props = ("C14", "C13")

    def build(self, E, case):
        d = _node_dict(E, "attr")
        E.__dict__["before"] = [(k, v) for k, v in d.entries]
        tree = TreeGhost("projection", [], _meta(E, case))
        return (mk_ct(E, d), tree), {}

    def ensures(self, E, case, args, kwargs, out):
        ct, tree = args
        d = ct._mapfile_todict.result
        yield "returns-the-node's-dict", out.kind == "return" and out.value is d
        yield "data-untouched", _data_unchanged(d, E.__dict__["before"])
        if case == "nometa":
            yield "nothing-added", "__comments__" not in d
        else:
            c = d["__comments__"] if "__comments__" in d else None
            is_nodes = isinstance(c, list) and len(c) == 1 and isinstance(c[0], Seg) and c[0].key[1] is tree.meta.comments
            if c is not None:
                yield "the-node's-comments", is_nodes
            tested = [b for seg, b in E.ctx.ghost.get("$nonempty", []) if seg.key[0] == "comments-of-node"]
            if tested:
                yield "comments-stored-whenever-there-are-any", len(tested) == 1 and S.ite(tested[0], is_nodes, c is None or is_nodes)
            else:
                yield "comments-stored", is_nodes


# ---------------------------------------------------------------------------------------------
# MapfileToDict.transform and Canonize
# ---------------------------------------------------------------------------------------------

def _install_lark_models():
    from lark.visitors import Transformer, Transformer_InPlace
    models.EXTRA_MODELS[Transformer.transform] = lambda I, tr, tree: Seg("lark-transform", tr, tree)
    models.EXTRA_MODELS[Transformer_InPlace.transform] = lambda I, tr, tree: Seg("lark-transform-inplace", tr, tree)


_install_lark_models()


@register
class ToDictTransform(Contract):
    target = "mappyfile.transformer.MapfileToDict.transform"
    cases = ["plain", "comments"]
    props = ("C12", "C13", "C14")
    doc = "a NEW transformer per call, built from the constructor flags only; comments pass only when asked for"

    def build(self, E, case):
        from mappyfile.transformer import MapfileToDict, MapfileTransformer
        m = MapfileToDict.__new__(MapfileToDict)
        m.include_position = E.bool("pos")
        m.include_comments = (case == "comments")
        m.transformer_class = MapfileTransformer
        m.kwargs = {}
        return (m, Seg("lark-tree")), {}

    def ensures(self, E, case, args, kwargs, out):
        from mappyfile.transformer import MapfileTransformer, Canonize, CommentsTransformer
        m, tree = args
        ok = out.kind == "return" and isinstance(out.value, Seg) and out.value.key[0] == "lark-transform"
        yield "main-transformer-applied-last", ok
        if not ok:
            return
        tr, t1 = out.value.key[1], out.value.key[2]
        yield "fresh-transformer-with-the-flags", isinstance(tr, MapfileTransformer) and S.truthy(S.eq(tr.include_position, m.include_position)) is True and tr.include_comments == m.include_comments
        if case == "comments":
            good = isinstance(t1, Seg) and t1.key[0] == "lark-transform-inplace" and isinstance(t1.key[1], CommentsTransformer) and t1.key[1]._mapfile_todict is tr
            yield "comments-pass-over-the-canonized-tree", good
            t0 = t1.key[2] if good else None
        else:
            t0 = t1
        yield "canonized-first", isinstance(t0, Seg) and t0.key[0] == "lark-transform-inplace" and isinstance(t0.key[1], Canonize) and t0.key[2] is tree


# the C20 loaders use MapfileToDict.transform through this call-site view
def _tt_at_call(self, E, m, tree):
    return Seg("transform", m, tree)


ToDictTransform.at_call = _tt_at_call
