"""Contracts for mappyfile/utils.py, mappyfile/cli.py and the validate plumbing of validator.py (C20, C07, C12, C13)."""
from __future__ import annotations
import z3
from collections import OrderedDict
from pyvc import sym as S
from pyvc.api import Contract, register
from pyvc.engine import MDict, TokenM, PyRaise, OutOfReach
from pyvc.absx import AbsColl, AbsMap, Seg, LoopSpec, Ghost
from contracts.validator_c import mk_validator, SchemaGhost, ErrGhost
from contracts.parser_c import LalrGhost, FpGhost
import contracts.comments_c  # noqa: F401  (MapfileToDict.transform call-site contract)


# ---------------------------------------------------------------------------------------------
# external models
# ---------------------------------------------------------------------------------------------

class ValidatorGhost(Ghost):
    """a jsonschema.Draft4Validator: iter_errors(x) is an abstract list of errors (A: empty iff x conforms)"""

    def __init__(self, schema):
        self.schema = schema

    def iter_errors(self, I, jsn):
        return AbsColl("errors", of=jsn, validator=self, pytype=list)


class OutFile(Ghost):
    def __init__(self, name, mode, encoding):
        self.name, self.mode, self.encoding = name, mode, encoding
        self.written = []

    def write(self, I, s):
        self.written.append(s)

    def __enter__(self):
        return self

    def __exit__(self, *a):
        return False


def ECHO(E):
    """ghost console of the path"""
    return E.ctx.ghost.setdefault("echo", []) if E.symbolic else E.__dict__.setdefault("echo", [])


def OPENED(E):
    """ghost files opened for writing on the path"""
    return E.ctx.ghost.setdefault("opened", []) if E.symbolic else E.__dict__.setdefault("opened", [])


def _install():
    import json
    import codecs
    import sys
    import glob
    import os
    import click
    import jsonschema
    from pyvc import models

    models.EXTRA_MODELS[json.dumps] = lambda I, x, **kw: Seg("json.dumps", x, tuple(sorted(kw.items())))
    models.EXTRA_MODELS[json.loads] = lambda I, x, **kw: Seg("json.loads", x)
    models.EXTRA_CLASS_MODELS[jsonschema.Draft4Validator] = lambda I, cls, schema=None, **kw: ValidatorGhost(schema)

    def m_codecs_open(I, name, mode="r", encoding=None, **kw):
        f = OutFile(name, mode, encoding)
        OPENED(I.E).append(f)
        return f
    models.EXTRA_MODELS[codecs.open] = m_codecs_open
    models.EXTRA_MODELS[codecs.decode] = lambda I, x, enc: Seg("codecs.decode", x, enc)

    def m_exit(I, code=0):
        raise PyRaise(SystemExit, (code,), "sys.exit")
    models.EXTRA_MODELS[sys.exit] = m_exit

    def m_echo(I, msg=None, **kw):
        ECHO(I.E).append(msg)
    models.EXTRA_MODELS[click.echo] = m_echo
    models.EXTRA_MODELS[click.format_filename] = lambda I, fn, *a: fn

    # `with codecs.open(...) as f:`
    from pyvc import engine
    orig_with = engine.Interp.x_With

    def x_With(self, st, frame):
        if len(st.items) == 1:
            cm = self.eval(st.items[0].context_expr, frame)
            if isinstance(cm, OutFile):
                if st.items[0].optional_vars is not None:
                    self.assign(st.items[0].optional_vars, cm, frame)
                self.exec_block(st.body, frame)
                return
            # re-evaluation would repeat side effects: only OutFile is created by a side-effecting model
        return orig_with(self, st, frame)
    engine.Interp.x_With = x_With


_install()


def reset_ghosts():
    pass


# ---------------------------------------------------------------------------------------------
# Validator._get_errors / validate / get_schema_validator
# ---------------------------------------------------------------------------------------------

@register
class GetSchemaValidator(Contract):
    target = "mappyfile.validator.Validator.get_schema_validator"
    cases = []
    props = ("C07",)

    def at_call(self, E, v, schema_name):
        return ValidatorGhost(("schema-file", schema_name))


@register
class GetErrors(Contract):
    target = "mappyfile.validator.Validator._get_errors"
    props = ("C07", "C12")
    modifies = ()
    doc = "messages for exactly the errors jsonschema reports on the JSON form of the lower-cased copy, in order"

    def build(self, E, case):
        return (mk_validator(E), E.absdict("d", entries=[("__type__", "map")]), ValidatorGhost("s"), E.bool("add_comments")), {}

    def ensures(self, E, case, args, kwargs, out):
        v, d, val, add = args
        ok = out.kind == "return" and isinstance(out.value, list) and len(out.value) == 1 and isinstance(out.value[0], Seg)
        yield "messages-of-the-schema-errors", ok
        if not ok:
            return
        seg = out.value[0]
        yield "messages-built-on-the-original-dict", seg.key[0] == "messages" and seg.key[1] is d and (seg.key[3] is add)
        errs = seg.key[2]
        yield "errors-of-this-validator", isinstance(errs, AbsColl) and errs.info.get("validator") is val
        jsn = errs.info.get("of") if isinstance(errs, AbsColl) else None
        good = isinstance(jsn, Seg) and jsn.key[0] == "json.loads" and isinstance(jsn.key[1], Seg) and jsn.key[1].key[0] == "json.dumps"
        yield "on-the-json-round-trip", good
        if good:
            low = jsn.key[1].key[1]
            yield "of-the-lower-cased-copy", isinstance(low, Seg) and low.key[0] == "convert_lowercase" and low.key[1] is d

    def at_call(self, E, v, d, validator, add_comments):
        return [Seg("_get_errors", d, validator, add_comments)]


class ValidateListLoop(LoopSpec):
    def carried(self, E, L, coll):
        return {"error_messages": [Seg("msgs@pre")]}

    def exit_state(self, E, L, coll):
        return {"error_messages": [Seg("per-root-messages", coll, L["validator"], L["add_comments"])]}

    def element(self, E, case, coll):
        return E.absdict("root", entries=[("__type__", E.str("root.type"))])

    def step(self, E, pre, post, elem, case):
        ms = post["error_messages"]
        yield "messages-of-this-root-appended", len(ms) == 2 and isinstance(ms[1], Seg) and ms[1].key[0] == "_get_errors" and ms[1].key[1] is elem \
            and ms[1].key[2] is post["validator"] and (ms[1].key[3] is post["add_comments"])


@register
class ValidatorValidate(Contract):
    target = "mappyfile.validator.Validator.validate"
    cases = ["dict:noversion", "dict:version", "list:noversion", "list:version"]
    props = ("C07", "C09")
    loops = {1: ValidateListLoop()}
    loop_cases = {1: ["list:noversion", "list:version"]}

    def build(self, E, case):
        shape, vk = case.split(":")
        value = E.absdict("d", entries=[("__type__", "map")]) if shape == "dict" else E.abslist("roots", pytype=list)
        version = None
        if vk == "version":
            version = E.real("version")
            E.assume(S.not_(S.eq(version, 0)))
        return (mk_validator(E), value, E.bool("add_comments"), E.str("schema_name"), version), {}

    def ensures(self, E, case, args, kwargs, out):
        v, value, add, name, version = args
        shape, vk = case.split(":")
        ok = out.kind == "return" and isinstance(out.value, list) and len(out.value) == 1 and isinstance(out.value[0], Seg)
        yield "returns-messages", ok
        if not ok:
            return
        seg = out.value[0]
        val = seg.key[2]
        good = isinstance(val, ValidatorGhost)
        yield "validator", good
        if good:
            if vk == "version":
                sc = val.schema
                yield "versioned-schema-of-(version,name)", isinstance(sc, SchemaGhost) and sc.name[1] is name and sc.name[2] is version \
                    and any(n == ("versioned-call", id(sc)) for n in E.ctx.notes)
            else:
                yield "schema-file-of-name", val.schema == ("schema-file", name) or (isinstance(val.schema, tuple) and val.schema[1] is name)
        if shape == "dict":
            yield "messages-of-the-dict", seg.key[0] == "_get_errors" and seg.key[1] is value and (seg.key[3] is add)
        else:
            yield "concatenation-per-root-in-order", seg.key[0] == "per-root-messages" and seg.key[1] is value and (seg.key[3] is add)

    def at_call(self, E, v, value, add_comments=False, schema_name="map", version=None):
        return [Seg("Validator.validate", value, add_comments, schema_name, version)]


def _gvs_at_call(self, E, v, version, schema_name="map"):
    empty_model = isinstance(v.expanded_schemas, MDict) and not v.expanded_schemas.entries and v.expanded_schemas.tail is None
    if E.__dict__.get("gvs_native") and not S.is_sym(version) and not S.is_sym(schema_name) and isinstance(schema_name, str) and (isinstance(v.expanded_schemas, dict) or empty_model):
        # concrete request on a Validator with concrete (or still empty) caches, as in utils.create: the real code runs natively
        try:
            if empty_model:
                from mappyfile.validator import Validator
                return Validator().get_versioned_schema(version, schema_name)
            return v.get_versioned_schema(version, schema_name)
        except IOError as ex:
            raise PyRaise(IOError, ex.args, "get_versioned_schema")
    g = SchemaGhost(("expanded", schema_name, version))
    E.ctx.notes.append(("versioned-call", id(g)))
    return g


from contracts.validator_c import GetVersionedSchema  # noqa: E402
GetVersionedSchema.at_call = _gvs_at_call


# ---------------------------------------------------------------------------------------------
# utils: loaders, writers, validate, create
# ---------------------------------------------------------------------------------------------

@register
class CreateLalr(Contract):
    target = "mappyfile.parser.Parser._create_lalr_parser"
    cases = []

    def at_call(self, E, p):
        return LalrGhost()


def _parse_file_at(self, E, p, fn):
    return Seg("parse_file", p, fn)


def _load_at(self, E, p, fp):
    return Seg("Parser.load", p, fp)


from contracts.parser_c import ParseFile, Load as ParserLoad  # noqa: E402
ParseFile.at_call = _parse_file_at
ParserLoad.at_call = _load_at


def _loader_contract(fname, how):
    class C(Contract):
        target = "mappyfile.utils." + fname
        cases = ["symbolic-flags"]
        props = ("C20", "C13", "C12", "C15")
        doc = "transform[include_position, include_comments](parse[expand_includes, include_comments](source))"

        def build(self, E, case):
            src = {"open": lambda: E.str("fn"), "load": lambda: FpGhost(E.str("content"), E.str("name")), "loads": lambda: E.str("s")}[fname]()
            return (src,), dict(expand_includes=E.bool("expand"), include_position=E.bool("pos"), include_comments=E.bool("com"))

        def ensures(self, E, case, args, kwargs, out):
            src, = args
            ok = out.kind == "return" and isinstance(out.value, Seg) and out.value.key[0] == "transform"
            yield "returns-transform(parse(...))", ok
            if not ok:
                return
            m, tree = out.value.key[1], out.value.key[2]
            yield "transformer-flags", S.and_(S.eq(m.include_position, kwargs["include_position"]), S.eq(m.include_comments, kwargs["include_comments"]))
            good = isinstance(tree, Seg) and tree.key[0] == how
            yield "parsed-by-" + how, good
            if good:
                p = tree.key[1]
                yield "parser-flags", S.and_(S.eq(p.expand_includes, kwargs["expand_includes"]), S.eq(p.include_comments, kwargs["include_comments"]))
                yield "source", tree.key[2] is src
    C.__name__ = "Utils_" + fname
    return register(C)


_loader_contract("open", "parse_file")
_loader_contract("load", "Parser.load")
_loader_contract("loads", "parse")


OPTS = ["indent", "spacer", "quote", "newlinechar", "end_comment", "align_values", "separate_complex_types"]


def _opt_values(E):
    return dict(indent=E.int("indent"), spacer=E.str("spacer"), quote=E.str("quote"), newlinechar=E.str("nl"),
                end_comment=E.bool("ec"), align_values=E.bool("al"), separate_complex_types=E.bool("sep"))


@register
class PPInitAtCall(Contract):
    """PrettyPrinter(...) at call sites: the option record (its own contract is contracts.pprint_c.Init)"""
    target = None
    lemma = True
    cases = []


class PPGhost(Ghost):
    def __init__(self, **kw):
        self.opts = kw

    def pprint(self, I, d):
        return Seg("pprint", self, d)


def _install_pp_class_model():
    from pyvc import models
    from mappyfile.pprint import PrettyPrinter
    models.EXTRA_CLASS_MODELS[PrettyPrinter] = lambda I, cls, **kw: PPGhost(**kw)


_install_pp_class_model()


@register
class PprintHelper(Contract):
    target = "mappyfile.utils._pprint"
    props = ("C20", "C06")

    def build(self, E, case):
        o = _opt_values(E)
        return (E.absdict("d", entries=[("__type__", "map")]),) + tuple(o[k] for k in OPTS), {}

    def ensures(self, E, case, args, kwargs, out):
        d = args[0]
        ok = out.kind == "return" and isinstance(out.value, Seg) and out.value.key[0] == "pprint"
        yield "PrettyPrinter(options).pprint(d)", ok and out.value.key[2] is d
        if ok:
            pp = out.value.key[1]
            yield "every-option-passed-under-its-own-name", sorted(pp.opts) == sorted(OPTS) and all(pp.opts[k] is a for k, a in zip(OPTS, args[1:]))

    def at_call(self, E, d, *a, **kw):
        return Seg("_pprint", d, tuple(a), tuple(sorted(kw.items())))


def _writer_contract(fname):
    class C(Contract):
        target = "mappyfile.utils." + fname
        props = ("C20", "C06", "C12")

        def build(self, E, case):
            reset_ghosts()
            o = _opt_values(E)
            d = E.absdict("d", entries=[("__type__", "map")])
            if fname == "dump":
                return (d, OutFile("fp", "w", None)), o
            if fname == "save":
                return (d, E.str("output_file")), o
            return (d,), o

        def ensures(self, E, case, args, kwargs, out):
            d = args[0]
            yield "returns", out.kind == "return"
            if out.kind != "return":
                return
            if fname == "dumps":
                text = out.value
            elif fname == "dump":
                fp = args[1]
                yield "written-once", len(fp.written) == 1
                text = fp.written[0] if fp.written else None
            else:
                yield "returns-file-name", out.value is args[1]
                op = OPENED(E)
                good = len(op) == 1 and op[0].name is args[1] and op[0].mode == "w" and op[0].encoding == "utf-8" and len(op[0].written) == 1
                yield "written-once-as-utf-8", good
                text = op[0].written[0] if good else None
            ok = isinstance(text, Seg) and text.key[0] == "_pprint" and text.key[1] is d
            yield "text-is-_pprint(d, options)", ok
            if ok:
                yield "all-options-in-order", len(text.key[2]) == 7 and all(a is kwargs[k] for a, k in zip(text.key[2], OPTS)) and text.key[3] == ()
    C.__name__ = "Utils_" + fname
    return register(C)


for _f in ("dump", "save", "dumps"):
    _writer_contract(_f)


class UtilsValidateLoop(LoopSpec):
    def carried(self, E, L, coll):
        return {"messages": [Seg("messages@pre")]}

    def exit_state(self, E, L, coll):
        return {"messages": [Seg("per-root-messages", coll, L["version"])]}

    def element(self, E, case, coll):
        return E.odict(entries=[("__type__", E.str("root.type")), ("name", E.str("n"))])

    def step(self, E, pre, post, elem, case):
        ms = post["messages"]
        ok = len(ms) == 2 and isinstance(ms[1], Seg) and ms[1].key[0] == "Validator.validate"
        yield "root-validated", ok
        if ok:
            yield "against-the-schema-of-its-type", ms[1].key[1] is elem and S.truthy(S.eq(ms[1].key[3], S.lower(elem["__type__"]))) is True and (ms[1].key[4] is post["version"]) \
                and ms[1].key[2] is False


@register
class UtilsValidate(Contract):
    target = "mappyfile.utils.validate"
    cases = ["dict", "dict-without-type", "list"]
    props = ("C07", "C12")
    loops = {1: UtilsValidateLoop()}
    loop_cases = {1: ["list"]}
    doc = "validates against the schema of the root type, per root for a list; never with add_comments"

    def build(self, E, case):
        if case == "dict":
            d = E.odict(entries=[("__type__", E.str("type")), ("name", E.str("n"))])
        elif case == "dict-without-type":
            d = E.odict(entries=[("name", E.str("n"))])
        else:
            d = E.abslist("roots", pytype=list)
        return (d, E.real("version")), {}

    def ensures(self, E, case, args, kwargs, out):
        d, version = args
        ok = out.kind == "return" and isinstance(out.value, list) and len(out.value) == 1 and isinstance(out.value[0], Seg)
        yield "returns-messages", ok
        if not ok:
            return
        seg = out.value[0]
        if case == "list":
            yield "per-root-in-order", seg.key[0] == "per-root-messages" and seg.key[1] is d
        else:
            want = d["__type__"] if case == "dict" else "map"
            yield "root-type-schema", seg.key[0] == "Validator.validate" and seg.key[1] is d and S.truthy(S.eq(seg.key[3], S.lower(want))) is True \
                and seg.key[4] is version and seg.key[2] is False

    def at_call(self, E, d, version=None):
        n = E.fresh(S.INT, "nmsg")
        E.assume(n >= 0)
        return AbsColl("validation_messages", of=d, version=version, length=n, pytype=list)


def _utils_open_at(self, E, fn, **kw):
    ok = E.fresh(S.BOOL, "opens")
    if not E.interp.ctx.branch(ok):
        raise PyRaise(Exception, ("parse or I/O failure",), "mappyfile.open")
    return Seg("open", fn, tuple(sorted(kw.items(), key=lambda kv: kv[0])))


# ---------------------------------------------------------------------------------------------
# cli
# ---------------------------------------------------------------------------------------------

def _cli_callback(name):
    import mappyfile.cli as cli
    cb = getattr(cli, name).callback
    return getattr(cb, "__wrapped__", cb)


class MessagesLoop(LoopSpec):
    """for v in validation_messages: echo one line, errors += 1"""

    def carried(self, E, L, coll):
        ECHO(E).clear()
        e = E.fresh(S.INT, "errors@msg")
        return {"errors": e}

    def exit_state(self, E, L, coll):
        # rule R-count: a counter incremented exactly once per iteration grows by the length of the collection
        return {"errors": S.add(L["errors"], coll.info["length"])}

    def element(self, E, case, coll):
        d = E.absdict("message", entries=[("line", E.int("m.line")), ("column", E.int("m.column")), ("message", E.str("m.message")), ("error", E.str("m.error"))], pycls=dict, absent=("fn",))
        return d

    def step(self, E, pre, post, elem, case):
        yield "counted-once", S.eq(post["errors"], pre["errors"] + 1)
        yield "one-line-echoed", len(ECHO(E)) == 1
        if len(ECHO(E)) == 1:
            fn = post["fn"]
            want = S.concat(fn, " (Line: ", S.to_str(elem["line"]), " Column: ", S.to_str(elem["column"]), ") ", elem["message"], " - ", elem["error"])
            yield "line-text", S.eq(ECHO(E)[0], want)


class FilesLoop(LoopSpec):
    elem_cases = ["*"]

    def carried(self, E, L, coll):
        ECHO(E).clear()
        e, c = E.fresh(S.INT, "errors@file"), E.fresh(S.INT, "count@file")
        E.assume(S.and_(e >= 0, c >= 0))
        return {"errors": e, "validation_count": c}

    def exit_state(self, E, L, coll):
        e = E.fresh(S.INT, "errors@exit")
        # rule R-sum: errors grows in every iteration by that file's number of problems (>= 0), and by at least 1
        # for a file that failed to parse or has messages: errors == 0 after the loop iff no file had a problem
        E.assume(e >= 0)
        self_problem = E.fresh(S.BOOL, "some_file_had_a_problem")
        E.assume(S.eq(e > 0, self_problem))
        coll.info["problems"] = e
        coll.info["any_problem"] = self_problem
        return {"errors": e, "validation_count": E.fresh(S.INT, "count@exit")}

    def element(self, E, case, coll):
        return E.str("fn")

    def step(self, E, pre, post, elem, case):
        inc = S.arith("-", post["errors"], pre["errors"])
        yield "errors-never-decrease", inc >= 0
        # which path was taken is visible in the ghost console
        failed = any(S.sort_of(m) == S.STR and S.truthy(S.endswith(m, " failed to parse successfully")) is True for m in ECHO(E) if m is not None)
        ok_line = any(S.sort_of(m) == S.STR and S.truthy(S.endswith(m, " validated successfully")) is True for m in ECHO(E) if m is not None)
        if failed:
            yield "unparseable-file-counts-as-a-problem", S.eq(inc, 1)
        elif ok_line:
            yield "clean-file-adds-nothing", S.and_(S.eq(inc, 0), S.eq(post["validation_count"], pre["validation_count"] + 1))
        else:
            msgs = post.get("validation_messages")
            good = isinstance(msgs, AbsColl) and "length" in msgs.info
            yield "file-with-messages", good
            if good:
                yield "one-problem-per-message", S.and_(S.eq(inc, msgs.info["length"]), msgs.info["length"] > 0)


@register
class CliValidate(Contract):
    target = "mappyfile.cli.validate"
    cases = ["some-files"]
    props = ("C20",)
    loops = {1: FilesLoop(), 2: MessagesLoop()}
    nested = {2: (1, "*")}
    doc = ("exit status = min(number of problems, 255) where every unparseable file is one problem and every validation "
           "message is one problem; one echoed line per message; hence status 0 iff every file parsed and validated")

    def resolve(self):
        return _cli_callback("validate")

    def build(self, E, case):
        reset_ghosts()
        files = E.abslist("all_mapfiles", length=E.int("nfiles"), pytype=list)
        E.assume(files.info["length"] > 0)
        E.__dict__["files"] = files
        return (None, ("pattern",), E.bool("expand"), E.real("version")), {}

    def ensures(self, E, case, args, kwargs, out):
        yield "exits", out.raised(SystemExit)
        if not out.raised(SystemExit):
            return
        code = out.exc_args[0]
        files = E.__dict__["files"]
        problems = files.info.get("problems")
        yield "status=min(problems,255)", problems is not None and S.eq(code, S.ite(problems > 255, 255, problems))
        if problems is not None:
            yield "status-0-iff-no-problem", S.eq(S.eq(code, 0), S.not_(files.info["any_problem"]))


@register
class GetMapfiles(Contract):
    """glob expansion: the abstract list of matched files of the current contract run (A: glob / os.path.isdir)"""
    target = "mappyfile.cli.get_mapfiles"
    cases = []

    def at_call(self, E, mapfiles):
        return E.__dict__["files"]


@register
class UtilsOpenAtCall(Contract):
    target = None
    lemma = True
    cases = []


from pyvc.api import REGISTRY as _R  # noqa: E402
_R["mappyfile.utils.open"].at_call = _utils_open_at.__get__(_R["mappyfile.utils.open"])


@register
class CliFormat(Contract):
    target = "mappyfile.cli.format"
    props = ("C20",)
    doc = "save(open(IN, expand, comments, include_position=True), OUT, indent, decoded spacer/quote/newlinechar); status 0"

    def resolve(self):
        return _cli_callback("format")

    def build(self, E, case):
        reset_ghosts()
        return (None, E.str("IN"), E.str("OUT"), E.int("indent"), E.str("spacer"), E.str("quote"), E.str("nl"), E.bool("expand"), E.bool("comments")), {}

    def ensures(self, E, case, args, kwargs, out):
        _, inp, outp, indent, spacer, quote, nl, expand, comments = args
        if out.kind == "raise" and not out.raised(SystemExit):
            yield "only-open-may-fail", True
            return
        yield "exits-0", out.raised(SystemExit) and out.exc_args[0] == 0
        saved = [n for n in E.ctx.notes if isinstance(n, tuple) and n and n[0] == "save-call"]
        yield "saved-once", len(saved) == 1
        if len(saved) == 1:
            _, d, of, kw = saved[0]
            yield "output-file", of is outp
            good = isinstance(d, Seg) and d.key[0] == "open" and d.key[1] is inp
            yield "dictionary-from-open(IN)", good
            if good:
                okw = dict(d.key[2])
                yield "open-flags", okw.get("expand_includes") is expand and okw.get("include_comments") is comments and okw.get("include_position") is True
            dec = lambda x: isinstance(kw.get(x[0]), Seg) and kw[x[0]].key[0] == "codecs.decode" and kw[x[0]].key[1] is x[1] and kw[x[0]].key[2] == "unicode_escape"
            yield "options", kw.get("indent") is indent and dec(("spacer", spacer)) and dec(("quote", quote)) and dec(("newlinechar", nl)) and sorted(kw) == ["indent", "newlinechar", "quote", "spacer"]


def _save_at(self, E, d, output_file, **kw):
    E.ctx.notes.append(("save-call", d, output_file, kw))
    return output_file


_R["mappyfile.utils.save"].at_call = _save_at.__get__(_R["mappyfile.utils.save"])


@register
class CliSchema(Contract):
    target = "mappyfile.cli.schema"
    cases = ["version", "noversion"]
    props = ("C20", "C09")

    def resolve(self):
        return _cli_callback("schema")

    def build(self, E, case):
        reset_ghosts()
        return (None, E.str("OUT"), E.real("version") if case == "version" else None), {}

    def ensures(self, E, case, args, kwargs, out):
        _, outp, version = args
        yield "exits-0", out.raised(SystemExit) and out.exc_args[0] == 0
        op = OPENED(E)
        good = len(op) == 1 and op[0].name is outp and op[0].mode == "w" and op[0].encoding == "utf-8" and len(op[0].written) == 1
        yield "written-once-as-utf-8", good
        if good:
            t = op[0].written[0]
            ok = isinstance(t, Seg) and t.key[0] == "json.dumps" and dict(t.key[2]) == {"sort_keys": True, "indent": 4}
            yield "json-of-the-api-schema", ok and isinstance(t.key[1], SchemaGhost) and t.key[1].name[2] is version and t.key[1].name[1] == "map"


# ---------------------------------------------------------------------------------------------
# utils.create, constructors, Canonize
# ---------------------------------------------------------------------------------------------

@register
class Create(Contract):
    """create(type, version) = {"__type__": type} plus every declared default of the (versioned) schema, keys sorted;
    an unknown type is a SyntaxError.  E over all object types x {no version, 7.6} through the real schemas."""
    target = "mappyfile.utils.create"
    props = ("C19",)

    @property
    def cases(self):
        from spec import schemas as SC
        return [f"{t}:{v}" for t in SC.object_types() for v in ("none", "7.6")] + ["zz_unknown:none"]

    def build(self, E, case):
        t, v = case.split(":")
        E.__dict__["gvs_native"] = True      # concrete requests: get_versioned_schema (under its own contract) runs natively on the real schemas
        return (t, None if v == "none" else float(v)), {}

    def ensures(self, E, case, args, kwargs, out):
        from spec import schemas as SC
        import tables
        t, v = args
        if t == "zz_unknown":
            yield "unknown-type-SyntaxError", out.raised(SyntaxError)
            return
        ok = out.kind == "return"
        yield "returns", ok
        if not ok:
            return
        d = out.value
        items = d.items() if not hasattr(d, "entries") else d.entries
        items = [(k, SC.plain(val)) for k, val in items]
        props = SC.expanded(t)["properties"]
        if v is not None:
            props = tables.ideal_prune(props, v)
        want = [("__type__", t)] + [(k, p["default"]) for k, p in sorted(props.items()) if isinstance(p, dict) and "default" in p]
        yield "type-then-sorted-defaults", items == want

    def at_call(self, E, type, version=None):
        raise NotImplementedError


del Create.at_call


@register
class ParserInit(Contract):
    target = "mappyfile.parser.Parser.__init__"
    props = ("C12", "C20")

    def build(self, E, case):
        from mappyfile.parser import Parser
        return (Parser.__new__(Parser), E.bool("expand"), E.bool("comments")), {}

    def ensures(self, E, case, args, kwargs, out):
        p, ex, com = args
        yield "returns", out.kind == "return"
        if out.kind == "return":
            yield "flags-stored", S.and_(S.eq(p.expand_includes, ex), S.eq(p.include_comments, com))
            yield "fresh-empty-comment-buffer", isinstance(p._comments, list) and p._comments == []
            yield "own-lalr-parser", isinstance(p.lalr, LalrGhost)


@register
class TransformerInit(Contract):
    """every field the callbacks read is set by the constructor: the two flags as given, a Quoter of its own"""
    target = "mappyfile.transformer.MapfileTransformer.__init__"
    props = ("C12", "C13", "C02")

    def build(self, E, case):
        from mappyfile.transformer import MapfileTransformer
        return (MapfileTransformer.__new__(MapfileTransformer), E.bool("pos"), E.bool("com")), {}

    def ensures(self, E, case, args, kwargs, out):
        from mappyfile.quoter import Quoter
        t, pos, com = args
        yield "returns", out.kind == "return"
        if out.kind == "return":
            yield "flags-stored", S.and_(S.eq(t.include_position, pos), S.eq(t.include_comments, com))
            yield "own-quoter", type(getattr(t, "quoter", None)) is Quoter


@register
class ValidatorInit(Contract):
    """a new Validator starts with empty schema caches of its own (nothing shared between instances, C12)"""
    target = "mappyfile.validator.Validator.__init__"
    props = ("C12", "C09", "C07")

    def build(self, E, case):
        from mappyfile.validator import Validator
        return (Validator.__new__(Validator),), {}

    def ensures(self, E, case, args, kwargs, out):
        v = args[0]
        yield "returns", out.kind == "return"
        if out.kind == "return":
            a, b = getattr(v, "schemas", None), getattr(v, "expanded_schemas", None)
            def empty(x):
                return (isinstance(x, dict) and not x) or (hasattr(x, "entries") and not x.entries and x.tail is None)
            yield "empty-caches-of-its-own", empty(a) and empty(b) and a is not b


@register
class ToDictInit(Contract):
    target = "mappyfile.transformer.MapfileToDict.__init__"
    props = ("C12", "C13")

    def build(self, E, case):
        from mappyfile.transformer import MapfileToDict
        return (MapfileToDict.__new__(MapfileToDict), E.bool("pos"), E.bool("com")), {}

    def ensures(self, E, case, args, kwargs, out):
        from mappyfile.transformer import MapfileTransformer
        m, pos, com = args
        yield "returns", out.kind == "return"
        if out.kind == "return":
            yield "flags-stored", S.and_(S.eq(m.include_position, pos), S.eq(m.include_comments, com))
            yield "default-transformer-class", m.transformer_class is MapfileTransformer
