#!/usr/bin/env python
"""check.py <property> [--tier quick|thorough] [--replay FILE]

Decides one property of /verif/properties.jsonl for the working tree in /repo (or $VERIF_REPO)."""
from __future__ import annotations
import argparse
import importlib
import json
import os
import sys
import time

ROOT = os.path.dirname(os.path.abspath(__file__))
sys.path.insert(0, ROOT)


def main():
    ap = argparse.ArgumentParser()
    ap.add_argument("prop")
    ap.add_argument("--tier", default=os.environ.get("VERIF_TIER", "quick"))
    ap.add_argument("--replay")
    ap.add_argument("--only", help="debug: substring filter on contract names")
    a = ap.parse_args()
    os.environ["VERIF_TIER"] = a.tier
    seed = int(os.environ.get("VERIF_SEED", "0") or 0)
    from pyvc import front
    front.use_repo()
    if a.replay:
        from pyvc import replaycmd
        sys.exit(replaycmd.run(a.prop, a.replay))
    try:
        mod = importlib.import_module("props." + a.prop)
        code = mod.run(a.tier, seed, only=a.only)
    except SystemExit:
        raise
    except BaseException:       # an internal error is never a violation
        import traceback
        traceback.print_exc()
        print("CHECKER-ERROR internal error in check.py (see traceback)")
        sys.exit(3)
    sys.exit(code)


if __name__ == "__main__":
    main()
